#!/usr/bin/env python3
"""Regenerate MANIFEST.json from the registry (claims) + vlib/not_applicable.json."""
import json, os, sys
HERE = os.path.dirname(os.path.dirname(os.path.abspath(__file__)))
sys.path.insert(0, HERE)
from vlib import registry

props = [json.loads(l)["id"] for l in open(os.path.join(HERE, "properties.jsonl"))]
na = json.load(open(os.path.join(HERE, "vlib", "not_applicable.json")))
fixes = []
kf = os.path.join(HERE, "known_findings.json")
if os.path.exists(kf):
    fixes = [f["commit"] for f in json.load(open(kf))["findings"] if f.get("status") == "fixed"]
checks = []
for p in props:
    m = registry.PROPERTY_META.get(p)
    if not m or not m.get("claim", True) or not any(p in o["props"] for o in registry.OBLIGATIONS):
        continue
    checks.append({
        "property_id": p,
        "quick_cmd": "./check %s --tier quick" % p,
        "thorough_cmd": "./check %s --tier thorough" % p,
        "evidence_file": "/verif/evidence/%s.json" % p,
        "replay_cmd_template": "./check %s --replay {path}" % p,
        "engine": "kani-contracts",
        "level_claimed": {"category": m.get("level", "proof"), "text": m["explanation"], "design_ref": m.get("design_ref", "DESIGN.md section 5 " + p)},
        "level_note": m.get("level_note", "; ".join(m.get("assumptions", []) + ["trusted: Kani 0.68/CBMC 6.11/CaDiCaL, rustc; see evidence.coverage.trusted_base"])),
        "technique": m.get("technique", "contract-based deductive verification: Kani function contracts / harness-stated contracts on the real code, discharged by CBMC for the full symbolic input domain"),
    })
claimed = {c["property_id"] for c in checks}
man = {
    "version": 1,
    "setup_cmd": "./setup.sh",
    "hooks": {
        "guard": "cfg(kani) — set only by `cargo kani` inside the woven scratch copy; /repo carries no hook code",
        "enable": "vlib/runner.py copies /repo's working tree to /var/tmp/chess-verif/<id>.<pid>/ws, inserts #[cfg_attr(kani, kani::requires/ensures(..))] attributes and `#[cfg(kani)] mod kani_verif_*;` lines (DESIGN 3.1), then runs cargo kani there",
        "baseline_off_cmd": "cd /repo && cargo test --workspace --no-fail-fast --offline",
        "source_commits": fixes,
        "add_only": True,
    },
    "engines": [{"name": "kani-contracts", "path": "/verif/check", "serves_properties": sorted(claimed),
                 "kind_free_text": "weave contracts+harness modules into a copy of the real source, cargo kani (CBMC) per obligation, concrete-playback replay natively"}],
    "checks": checks,
    "notes": "Exit codes of ./check: 0 held, 1 VIOLATION (an obligation CBMC refuted), 2 UNDECIDED (lost anchor, tool limit, timeout) — never an alarm. See DESIGN.md.",
    "not_applicable": [{"property_id": p, "reason": na[p]} for p in props if p not in claimed],
}
missing = [p for p in props if p not in claimed and p not in na]
assert not missing, missing
json.dump(man, open(os.path.join(HERE, "MANIFEST.json"), "w"), indent=1)
print("claimed:", sorted(claimed))
