#!/usr/bin/env python3
"""Runner for the contract-based checks (see DESIGN.md section 3).

  weave   : copy /repo's working tree, insert contract attributes + harness modules
  run     : cargo kani per (crate, flag group); results from --export-json
  replay  : refuted obligation -> concrete playback test -> native run on the real code
  evidence: /verif/evidence/<id>.json, rewritten by every run

Exit codes: 0 held / 1 VIOLATION (only for an obligation CBMC refuted) / 2 undecided.
"""
import argparse, hashlib, json, os, re, resource, shutil, signal, subprocess, sys, time

HERE = os.path.dirname(os.path.dirname(os.path.abspath(__file__)))
sys.path.insert(0, HERE)
from vlib import registry  # noqa: E402

REPO = os.environ.get("VERIF_REPO", "/repo")
SCRATCH_ROOT = os.environ.get("VERIF_SCRATCH", "/var/tmp/chess-verif")
KANI_Z = ["-Z", "function-contracts", "-Z", "stubbing", "-Z", "unstable-options"]

FLAG_GROUPS = {
    # every default check on (memory safety, overflow, unwinding assertions, reach checks)
    "safety": [],
    # all default checks on, but without the per-assertion reachability SAT calls
    "full": ["--no-assertion-reach-checks"],
    # safe code only: panics (assert/unwrap/index) and arithmetic overflow are checked, raw-pointer validity checks are off
    "panic": ["--no-assertion-reach-checks", "--no-memory-safety-checks"],
    # functional obligations on the big movegen formulas (DESIGN 3.3)
    "func": ["--no-assertion-reach-checks", "--no-memory-safety-checks", "--no-overflow-checks"],
}


def log(*a):
    print(*a, flush=True)


class Undecided(Exception):
    pass


# --------------------------------------------------------------------------- weave

def sh(cmd, **kw):
    return subprocess.run(cmd, **kw)


def weave(ws, vcopy, only_mods=None, drop_mods=()):
    """Build the woven copy of /repo's *current working tree* in ws."""
    if os.path.exists(ws):
        shutil.rmtree(ws)
    os.makedirs(ws)
    r = sh(["rsync", "-a", "--exclude", "/target", "--exclude", ".git", REPO + "/", ws + "/"])
    if r.returncode != 0:
        raise Undecided("rsync of %s failed" % REPO)
    # harness + spec sources are copied next to the woven tree so that
    # --concrete-playback=inplace edits the copy, never /verif
    if os.path.exists(vcopy):
        shutil.rmtree(vcopy)
    os.makedirs(vcopy)
    for d in ("harness", "spec", "shims"):
        if os.path.isdir(os.path.join(HERE, d)):
            shutil.copytree(os.path.join(HERE, d), os.path.join(vcopy, d))
    stats = {"inserted_lines": 0, "rewritten_lines": 0, "hosts": 0, "contracts": 0}
    # (a) contract attributes above real functions
    for c in registry.CONTRACTS:
        path = os.path.join(ws, c["file"])
        if not os.path.exists(path):
            raise Undecided("lost anchor: file %s" % c["file"])
        src = open(path).read().split("\n")
        hits = [i for i, l in enumerate(src) if re.search(c["anchor"], l)]
        if "within" in c:
            # restrict to the brace-matched item opened by the `within` line
            w = [i for i, l in enumerate(src) if re.search(c["within"], l)]
            if len(w) != 1:
                raise Undecided("lost anchor: %s / %s" % (c["file"], c["within"]))
            depth, end, seen = 0, None, False
            for j in range(w[0], len(src)):
                depth += src[j].count("{") - src[j].count("}")
                if "{" in src[j]:
                    seen = True
                if seen and depth == 0:
                    end = j
                    break
            hits = [i for i in hits if w[0] <= i <= (end or len(src))]
        if len(hits) != 1:
            raise Undecided("lost anchor: %s / %s (%d matches)" % (c["file"], c["anchor"], len(hits)))
        indent = re.match(r"\s*", src[hits[0]]).group(0)
        attrs = [indent + "#[cfg_attr(kani, %s)]" % a for a in c["attrs"]]
        src[hits[0]:hits[0]] = attrs
        open(path, "w").write("\n".join(src))
        stats["inserted_lines"] += len(attrs)
        stats["contracts"] += 1
    # (b) rewrites of existing lines, stated exactly in DESIGN 3.1
    for rw in registry.REWRITES:
        path = os.path.join(ws, rw["file"])
        if not os.path.exists(path):
            raise Undecided("lost anchor: file %s" % rw["file"])
        text = open(path).read()
        new, n = re.subn(rw["pattern"], rw["repl"], text, flags=re.M)
        if n < rw.get("min", 1):
            raise Undecided("lost anchor: rewrite %s in %s" % (rw["pattern"], rw["file"]))
        open(path, "w").write(new)
        stats["rewritten_lines"] += n
    # (c) harness / spec modules
    for h in registry.HOSTS:
        if only_mods is not None and not h.get("support") and h["mod"] not in only_mods:
            continue
        if h["mod"] in drop_mods and not h.get("support"):
            continue
        path = os.path.join(ws, h["file"])
        if not os.path.exists(path):
            raise Undecided("lost anchor: host module %s" % h["file"])
        src = os.path.join(vcopy, h["src"])
        if not os.path.exists(src):
            raise Undecided("framework error: harness %s missing" % h["src"])
        vis = "pub " if h.get("pub") else ""
        add = '\n#[cfg(kani)]\n#[path = "%s"]\n%smod %s;\n' % (src, vis, h["mod"])
        with open(path, "a") as f:
            f.write(add)
        stats["inserted_lines"] += 4
        stats["hosts"] += 1
    for fn in registry.EXTRA_WEAVE:
        fn(ws, vcopy, stats)
    # [net] offline for cargo kani
    os.makedirs(os.path.join(ws, ".cargo"), exist_ok=True)
    with open(os.path.join(ws, ".cargo", "config.toml"), "a") as f:
        f.write("\n[net]\noffline = true\n")
    return stats


# --------------------------------------------------------------------------- kani

def limit_mem(gb):
    # no RLIMIT_AS: the Kani compiler reserves far more address space than it uses and aborts under a
    # virtual-memory limit; memory is guarded by the watchdog in run_kani instead
    def f():
        os.setsid()
    return f


def mem_available_gb():
    try:
        for l in open("/proc/meminfo"):
            if l.startswith("MemAvailable:"):
                return int(l.split()[1]) / (1 << 20)
    except Exception:
        pass
    return 1e9


def run_kani(ws, crate, harnesses, flags, jobs, timeout_s, out_json, logf, extra=None, mem_gb=None):
    cmd = ["cargo", "kani", "-p", crate] + registry.CRATE_ARGS.get(crate, []) + KANI_Z + flags + [
        "--export-json", out_json, "--harness-timeout", "%ds" % timeout_s,
        "--output-format=terse", "--exact"]
    for h in harnesses:
        cmd += ["--harness", h]
    if jobs > 1:
        cmd += ["-j", str(jobs)]
    cmd += extra or []
    env = dict(os.environ, CARGO_NET_OFFLINE="true", CARGO_TERM_COLOR="never", RUST_BACKTRACE="0")
    env.pop("RUSTFLAGS", None)
    if os.path.exists(out_json):
        os.remove(out_json)
    t0 = time.time()
    with open(logf, "w") as lf:
        lf.write("$ " + " ".join(cmd) + "\n")
        lf.flush()
        p = subprocess.Popen(cmd, cwd=ws, env=env, stdout=lf, stderr=subprocess.STDOUT,
                             preexec_fn=limit_mem(mem_gb))
        waves = (len(harnesses) + jobs - 1) // jobs
        deadline = time.time() + timeout_s * waves + 1800
        while True:
            try:
                p.wait(timeout=2)
                break
            except subprocess.TimeoutExpired:
                pass
            if time.time() > deadline or mem_available_gb() < 2.5:
                lf.write("\n[runner] killed: %s\n" % ("deadline" if time.time() > deadline else "memory watchdog (MemAvailable < 2.5 GB)"))
                os.killpg(p.pid, signal.SIGKILL)
                p.wait()
                break
    return p.returncode, time.time() - t0, " ".join(cmd)


def run_verus(ob, logdir):
    """Spec-level lemma file checked by Verus; one obligation per file."""
    path = os.path.join(HERE, ob["file"])
    t0 = time.time()
    try:
        p = subprocess.run(["verus", path, "--output-json", "--time"], stdout=subprocess.PIPE, stderr=subprocess.PIPE, timeout=ob.get("timeout", 600), cwd=logdir)
        out = p.stdout.decode(errors="replace")
        d = json.loads(out[out.index("{"):])
        vr = d.get("verification-results", {})
        ok = vr.get("success") and vr.get("errors", 1) == 0 and vr.get("verified", 0) > 0
        st = {"runtime_decision_procedure_s": (d.get("times-ms", {}).get("smt", {}).get("total", 0) or 0) / 1000.0, "runtime_symex_s": 0}
        r = {"status": "Success" if ok else "Failure", "duration_s": time.time() - t0, "checks_total": vr.get("verified", 0) + vr.get("errors", 0),
             "failed": [] if ok else [{"description": "verus reported %s errors" % vr.get("errors"), "category": "verus"}], "other": [], "covers": [], "error": {}, "props": {"total_properties": vr.get("verified", 0)},
             "cbmc_stats": st, "solver": "verus 0.2026.09.13 / z3"}
        return r
    except Exception as e:
        return None


def parse_export(out_json):
    """-> {harness: {status, checks_total, failed_checks[], cbmc_stats, duration_s, covers}}"""
    if not os.path.exists(out_json):
        return {}
    d = json.load(open(out_json))
    res = {}
    errs = {e["harness_id"]: e for e in d.get("error_details", [])}
    props = {e["harness_id"]: e["property_details"] for e in d.get("property_details", [])}
    cbmc = {e["harness_id"]: e for e in d.get("cbmc", [])}
    for r in d.get("verification_results", {}).get("results", []):
        h = r["harness_id"]
        checks = r.get("checks", [])
        failed = [c for c in checks if c.get("status") == "Failure"]
        other = [c for c in checks if c.get("status") not in ("Success", "Failure", "Satisfied", "Unsatisfiable", "Unreachable", "Uncovered", "Covered")]
        covers = [c for c in checks if c.get("category") == "cover" or c.get("status") in ("Satisfied", "Unsatisfiable")]
        res[h] = {
            "status": r.get("status"),
            "duration_s": r.get("duration_ms", 0) / 1000.0,
            "checks_total": len(checks),
            "failed": failed,
            "other": other,
            "covers": covers,
            "error": errs.get(h, {}),
            "props": props.get(h, {}),
            "cbmc_stats": cbmc.get(h, {}).get("cbmc_stats") or {},
            "solver": (cbmc.get(h, {}).get("configuration") or {}).get("solver"),
        }
    res["__tools__"] = d.get("tools", {})
    return res


def describe(c):
    d = c.get("description", "?")
    loc = c.get("location") or {}
    f, ln = loc.get("file"), loc.get("line")
    if "placeholder message" in d and f and ln and os.path.exists(f):
        try:
            d = open(f).read().split("\n")[int(ln) - 1].strip()
        except Exception:
            pass
    return d


def classify(ob, r):
    """-> ('discharged'|'refuted'|'undecided', reason, failing_checks)"""
    if r is None:
        return "undecided", "no result from Kani (compile error, crash or filter mismatch)", []
    failed = r["failed"]
    unwind = [c for c in failed if c.get("category") == "unwind" or "unwinding assertion" in c.get("description", "")]
    unsupported = [c for c in failed if c.get("category") in ("unsupported_construct",) or "is not currently supported by Kani" in c.get("description", "")]
    real = [c for c in failed if c not in unwind and c not in unsupported]
    es = r["error"].get("exit_status", "")
    if r["status"] == "Success" and not failed:
        if r["props"].get("total_properties", r["checks_total"]) == 0 and r["checks_total"] == 0:
            return "undecided", "vacuous: zero checks generated", []
        bad = [c for c in r["covers"] if c.get("status") != "Satisfied"]
        if bad or (ob.get("kind") == "cover" and not r["covers"]):
            # every kani::cover! in a harness is a vacuity guard (end of harness / interesting case reachable)
            return "undecided", "vacuity guard: cover not satisfied: %s" % "; ".join(c.get("description", "?") for c in bad), bad
        return "discharged", "", []
    if real:
        return "refuted", "; ".join(sorted(set(describe(c) for c in real)))[:900], real
    if unsupported:
        return "undecided", "unsupported construct: " + unsupported[0].get("description", ""), []
    if unwind:
        if ob.get("unwind_is_violation"):
            return "refuted", "unwinding assertion failed (loop exceeds its data-width bound)", unwind
        return "undecided", "unwinding assertion failed (bound too small)", []
    return "undecided", "Kani status=%s exit=%s (timeout / out of memory / solver error)" % (r["status"], es), []


# --------------------------------------------------------------------------- replay

def replay_refuted(ws, vcopy, ob, flags, logdir, reason, failing):
    """Re-run the harness with concrete playback, then execute the generated unit test natively
    against the real crates of the woven copy. Returns (path, reproduced: bool)."""
    os.makedirs(os.path.join(HERE, "replays"), exist_ok=True)
    name = ob["name"]
    out_json = os.path.join(logdir, name + ".playback.json")
    logf = os.path.join(logdir, name + ".playback.log")
    extra = ["-Z", "concrete-playback", "--concrete-playback=print"]
    # same harness, same code; Kani prints the unit test with the concrete kani::any() bytes
    rc, wall, cmd = run_kani(ws, ob["crate"], [ob["harness"]], flags, 1, ob.get("timeout", 900), out_json, logf, extra=extra,
                             mem_gb=ob.get("mem_gb", 40))
    gen = open(logf).read()
    # the generated unit tests, without their doc comments (a multi-line check description breaks the `///` prefix)
    blocks = re.findall(r"(#\[test\]\nfn kani_concrete_playback_\w+\(\) \{.*?\n\})", gen, flags=re.S)
    native_out, reproduced, test_src = "", False, ""
    # the harness module file of this obligation (copy next to the woven tree)
    parts = ob["harness"].split("::")
    hsrc, rel = None, parts[-1]
    for h in registry.HOSTS:
        if h["mod"] in parts[:-1] and h["crate"] == ob["crate"]:
            hsrc = os.path.join(vcopy, h["src"])
            rel = "::".join(parts[parts.index(h["mod"]) + 1:])
    tests = []
    if blocks and hsrc and os.path.exists(hsrc):
        with open(hsrc, "a") as f:
            f.write("\n// ---- concrete playback tests appended by vlib/runner.py ----\n")
            for i, b in enumerate(blocks[:6]):
                m = re.search(r"fn (kani_concrete_playback_\w+)\(\)", b)
                if not m:
                    continue
                tname = "%s_%d" % (m.group(1), i)
                b = b.replace(m.group(1), tname)
                # the harness function may live in a sub-module of the harness file
                b = re.sub(r"kani::concrete_playback_run\(concrete_vals, \w+\)", "kani::concrete_playback_run(concrete_vals, %s)" % rel, b)
                f.write(b + "\n")
                tests.append(tname)
                test_src += b + "\n"
        env = dict(os.environ, CARGO_NET_OFFLINE="true", CARGO_TERM_COLOR="never", RUST_BACKTRACE="0")
        for t in tests:
            pc = ["cargo", "kani", "playback", "-Z", "concrete-playback", "-p", ob["crate"], "--", t]
            try:
                p = subprocess.run(pc, cwd=ws, env=env, stdout=subprocess.PIPE, stderr=subprocess.STDOUT, timeout=1800)
                out = p.stdout.decode(errors="replace")
            except subprocess.TimeoutExpired:
                out = "native playback timed out"
            keep = [l for l in out.split("\n") if re.search(r"panicked|assert|VERIF|test result|^test |left:|right:|overflow|unreachable|index out|^error", l)]
            native_out += "\n".join(keep[:60]) + "\n"
            if re.search(r"test result: FAILED|panicked at", out):
                reproduced = True
    h = hashlib.sha1((name + reason + test_src).encode()).hexdigest()[:10]
    path = os.path.join(HERE, "replays", "%s.%s.json" % (name, h))
    doc = {
        "obligation": name,
        "properties": ob["props"],
        "contract_clause": ob.get("contract", ""),
        "functions": ob.get("functions", []),
        "harness": ob["harness"],
        "crate": ob["crate"],
        "kani_failed_checks": [
            {"description": c.get("description"), "function": c.get("function"), "location": c.get("location"), "category": c.get("category")}
            for c in failing[:20]],
        "reason": reason,
        "concrete_playback_test": test_src,
        "native_replay_reproduced": reproduced,
        "native_replay_output": native_out[-6000:],
        "verifier_output_tail": gen[-4000:] if not reproduced else "",
        "rerun": "cd %s && ./check %s --only %s" % (HERE, ob["props"][0], name),
        "repo_head": git_head(),
    }
    json.dump(doc, open(path, "w"), indent=1)
    return path, reproduced


def git_head():
    try:
        return subprocess.run(["git", "-C", REPO, "rev-parse", "HEAD"], stdout=subprocess.PIPE).stdout.decode().strip()
    except Exception:
        return ""


# --------------------------------------------------------------------------- known findings

def load_known():
    p = os.path.join(HERE, "known_findings.json")
    if not os.path.exists(p):
        return []
    return json.load(open(p)).get("findings", [])


# --------------------------------------------------------------------------- main

def select(prop, tier, only, seed=0):
    """quick tier: obligations tagged quick; of a partitioned family (ob['part']) only the slice chosen by VERIF_SEED"""
    obs, skipped = [], []
    for ob in registry.OBLIGATIONS:
        if prop not in ob["props"]:
            continue
        if only and not any(o in ob["name"] for o in only):
            continue
        if tier == "quick" and (ob.get("tier", "quick") != "quick" or ob.get("prop_tiers", {}).get(prop) == "thorough"):
            skipped.append(ob["name"])
            continue
        if tier == "quick" and "part" in ob:
            k, n = ob["part"] if isinstance(ob["part"], tuple) else (ob["part"], 2)
            if seed % n != k:
                skipped.append(ob["name"])
                continue
        obs.append(ob)
    select.skipped = skipped
    return obs


def main():
    ap = argparse.ArgumentParser()
    ap.add_argument("prop")
    ap.add_argument("--tier", default=os.environ.get("VERIF_TIER", "quick"))
    ap.add_argument("--only", action="append")
    ap.add_argument("--keep", action="store_true")
    ap.add_argument("--replay")
    ap.add_argument("--no-evidence", action="store_true")
    ap.add_argument("--jobs", type=int, default=int(os.environ.get("VERIF_JOBS", "16")))
    a = ap.parse_args()
    prop = a.prop
    tier = a.tier if a.tier in ("quick", "thorough") else "quick"
    seed = int(os.environ.get("VERIF_SEED", "0") or 0)
    if a.replay:
        d = json.load(open(a.replay))
        log(json.dumps({k: d[k] for k in ("obligation", "reason", "native_replay_reproduced", "native_replay_output", "rerun")}, indent=1))
        a.only = [d["obligation"]]
    t0 = time.time()
    obs = select(prop, tier, a.only, seed)
    if not obs:
        log("UNDECIDED property=%s reason=no obligations registered for tier %s" % (prop, tier))
        return 2
    scratch = os.path.join(SCRATCH_ROOT, "%s.%d" % (prop, os.getpid()))
    ws, vcopy, logdir = os.path.join(scratch, "ws"), os.path.join(scratch, "verif"), os.path.join(scratch, "logs")
    results, undecided, violations, known_lines = [], [], [], []
    tools = {}
    weave_stats = {}
    try:
        os.makedirs(logdir, exist_ok=True)
        try:
            registry.pre_check(prop, HERE)
            weave_stats = weave(ws, vcopy)
        except Undecided as e:
            log("UNDECIDED property=%s reason=%s" % (prop, e))
            write_evidence(prop, tier, seed, [], time.time() - t0, weave_stats, tools, [str(e)], a)
            return 2
        known = [k for k in load_known() if k.get("status") == "open" and k.get("property") == prop]
        groups = {}
        for ob in obs:
            key = (ob["crate"], ob.get("flags", "full"), ob.get("jobs_class", "n"))
            groups.setdefault(key, []).append(ob)
        import threading
        lock = threading.Lock()
        budget = threading.Semaphore(3)   # at most three groups (cargo kani invocations) at a time, each with its own target dir

        def run_group(key, gobs, tools_box):
            crate, fg, jc = key
            if crate == "__verus__":
                for o in gobs:
                    r = run_verus(o, logdir)
                    verdict, reason, failing = classify(o, r)
                    if verdict == "refuted":
                        verdict, reason = "undecided", "verus did not verify the lemma file: " + reason
                    with lock:
                        results.append(dict(ob=o, verdict=verdict, reason=reason, r=r, cmd="verus %s" % o["file"], failing=[], flags=[]))
                return
            with budget:
                flags = FLAG_GROUPS[fg]
                tmo = max(o.get("timeout", 600) for o in gobs)
                mem = max(o.get("mem_gb", 3) for o in gobs)
                # memory budget of this group: its share of the estimated memory of everything that runs concurrently
                gsum = sum(o.get("mem_gb", 3) for o in gobs)
                tsum = sum(o.get("mem_gb", 3) for g in groups.values() for o in g if g[0]["crate"] != "__verus__") or gsum
                budget_gb = max(mem, 56.0 * gsum / tsum)
                jobs = max(min(len(gobs), 2), min(a.jobs, len(gobs), int(budget_gb // mem) or 1))
                tag = "%s.%s.%s" % (crate, fg, jc)
                out_json = os.path.join(logdir, tag + ".json")
                logf = os.path.join(logdir, tag + ".log")
                tdir = ["--target-dir", os.path.join(scratch, "target." + tag)]
                log("[%s] kani: crate=%s flags=%s harnesses=%d jobs=%d timeout=%ds" % (prop, crate, fg, len(gobs), jobs, tmo))
                rc, wall, cmd = run_kani(ws, crate, [o["harness"] for o in gobs], flags + tdir, jobs, tmo, out_json, logf, mem_gb=max(16, 2 * mem))
                parsed = parse_export(out_json)
                if not parsed and any(l.startswith("error") for l in open(logf).read().split("\n")):
                    with lock:
                        # A harness module may have lost its anchor (e.g. a helper's signature changed). Re-weave once
                        # without the harness modules the compiler errors point into and with only the modules the
                        # selected obligations need; obligations of a dropped module stay undecided (lost anchor).
                        if not getattr(run_group, "rewoven", False):
                            text = open(logf).read()
                            bad_files = set(re.findall(r"^error[^\n]*\n\s*--> \S*?/verif/(harness/\S+?\.rs):", text, flags=re.M))
                            drop = set(h["mod"] for h in registry.HOSTS if h["src"] in bad_files and not h.get("support"))
                            mods = set()
                            for o in obs:
                                mods.update(x for x in o["harness"].split("::")[:-1])
                            log("[%s] woven copy did not compile; re-weaving with harness modules %s, dropping %s" % (prop, sorted(mods - drop), sorted(drop)))
                            try:
                                weave(ws, vcopy, only_mods=mods, drop_mods=drop)
                                run_group.rewoven = True
                                run_group.dropped = drop
                            except Undecided:
                                pass
                    drop = getattr(run_group, "dropped", set())
                    keep = [o for o in gobs if not (set(o["harness"].split("::")[:-1]) & drop)]
                    lost = [o for o in gobs if o not in keep]
                    with lock:
                        for o in lost:
                            results.append(dict(ob=o, verdict="undecided", reason="lost anchor: harness module %s no longer compiles against the changed code" % sorted(set(o["harness"].split("::")[:-1]) & drop), r=None, cmd=cmd))
                    gobs = keep
                    if not gobs:
                        return
                    rc, wall, cmd = run_kani(ws, crate, [o["harness"] for o in gobs], flags + tdir, jobs, tmo, out_json, logf, mem_gb=max(16, 2 * mem))
                    parsed = parse_export(out_json)
                if parsed:
                    t = parsed.pop("__tools__", None)
                    if t:
                        tools_box.update(t)
                if not parsed:
                    lines = open(logf).read().split("\n")
                    errs = [l for l in lines if l.startswith("error")]
                    shown = 0
                    with lock:
                        for i, l in enumerate(lines):
                            if l.startswith("error") and shown < 8:
                                log("\n".join(lines[i:i + 14]))
                                shown += 1
                        if not errs:
                            log("\n".join(lines[-30:]))
                        for o in gobs:
                            results.append(dict(ob=o, verdict="undecided", reason="woven copy did not compile or Kani crashed: %s" % "; ".join(errs[:3]), r=None, cmd=cmd))
                    return
                with lock:
                    for o in gobs:
                        r = parsed.get(o["harness"])
                        verdict, reason, failing = classify(o, r)
                        results.append(dict(ob=o, verdict=verdict, reason=reason, r=r, cmd=cmd, failing=failing, flags=flags))

        tools_box = {}
        threads = [threading.Thread(target=run_group, args=(k, g, tools_box)) for k, g in groups.items()]
        for t in threads:
            t.start()
        for t in threads:
            t.join()
        tools = tools_box or tools
        # keep the registry order in the report
        order = {o["name"]: i for i, o in enumerate(obs)}
        results.sort(key=lambda r: order.get(r["ob"]["name"], 0))
        # verdicts
        for res in results:
            o = res["ob"]
            expect = o.get("expect", "pass")
            v = res["verdict"]
            st = res["r"]["cbmc_stats"] if res["r"] else {}
            log("  %-34s %-10s checks=%s symex=%.1fs solver=%.1fs %s" % (
                o["name"], v, res["r"]["checks_total"] if res["r"] else "-",
                st.get("runtime_symex_s") or 0, st.get("runtime_decision_procedure_s") or 0, res["reason"][:160]))
            if expect == "refuted":
                # negated twin / known-finding witness: must be refuted
                if v == "refuted":
                    res["final"] = "discharged"
                elif v == "discharged":
                    res["final"] = "undecided"
                    res["reason"] = "expected refutation did not occur (vacuous requires, or stale known finding)"
                    undecided.append(res)
                else:
                    res["final"] = "undecided"
                    undecided.append(res)
                continue
            if v == "discharged":
                res["final"] = "discharged"
            elif v == "undecided":
                res["final"] = "undecided"
                undecided.append(res)
            else:
                res["final"] = "refuted"
                violations.append(res)
        for k in known:
            wit = [r for r in results if r["ob"]["name"] == k.get("witness_obligation")]
            if wit and wit[0]["verdict"] == "refuted":
                known_lines.append("KNOWN-FINDING: property=%s %s" % (prop, k["what"]))
            elif wit:
                k_res = wit[0]
                if k_res not in undecided:
                    undecided.append(k_res)
        for l in known_lines:
            log(l)
        for res in violations:
            o = res["ob"]
            try:
                path, repro = replay_refuted(ws, vcopy, o, res["flags"], logdir, res["reason"], res["failing"])
            except Exception as e:  # replay machinery failure must not hide the violation
                path = os.path.join(HERE, "replays", o["name"] + ".noreplay.json")
                os.makedirs(os.path.dirname(path), exist_ok=True)
                json.dump({"obligation": o["name"], "reason": res["reason"], "replay_error": repr(e),
                           "kani_failed_checks": res["failing"][:20]}, open(path, "w"), indent=1)
                repro = False
            res["replay"] = path
            res["reproduced"] = repro
            log("VIOLATION property=%s replay=%s obligation=%s%s" % (prop, path, o["name"], "" if repro else " no-failing-input-found"))
        for res in undecided:
            log("UNDECIDED property=%s obligation=%s reason=%s" % (prop, res["ob"]["name"], res["reason"][:300]))
        wall = time.time() - t0
        if not a.no_evidence:
            write_evidence(prop, tier, seed, results, wall, weave_stats, tools, [], a)
        if violations:
            return 1
        if undecided:
            return 2
        log("[%s] OK: %d obligations discharged in %.0fs" % (prop, len([r for r in results if r.get('final') == 'discharged']), wall))
        return 0
    finally:
        if not a.keep and not os.environ.get("VERIF_KEEP"):
            shutil.rmtree(scratch, ignore_errors=True)
        else:
            log("scratch kept at " + scratch)


def write_evidence(prop, tier, seed, results, wall, weave_stats, tools, errors, a):
    os.makedirs(os.path.join(HERE, "evidence"), exist_ok=True)
    meta = registry.PROPERTY_META.get(prop, {})
    obl, funcs, assumptions = [], set(), list(meta.get("assumptions", []))
    n_complete = n_complete_ok = n_bounded = n_bounded_ok = n_guard = n_guard_ok = 0
    symex = solver = 0.0
    for res in results:
        o, r = res["ob"], res["r"]
        st = r["cbmc_stats"] if r else {}
        kind = o.get("kind", "complete")
        ok = res.get("final") == "discharged"
        if kind in ("complete", "ground"):
            n_complete += 1
            n_complete_ok += ok
        elif kind == "bounded":
            n_bounded += 1
            n_bounded_ok += ok
        else:
            n_guard += 1
            n_guard_ok += ok
        symex += st.get("runtime_symex_s") or 0
        solver += st.get("runtime_decision_procedure_s") or 0
        for f in o.get("functions", []):
            funcs.add(f)
        obl.append({
            "name": o["name"], "kind": kind, "bound": o.get("bound"), "harness": o["harness"], "crate": o["crate"],
            "packaging": o.get("packaging", "harness-stated contract"),
            "contract": o.get("contract", ""), "functions": o.get("functions", []),
            "modular_stubs": o.get("stubs", []),
            "expect": o.get("expect", "pass"),
            "verdict": res.get("final", res["verdict"]), "kani_verdict": res["verdict"], "reason": res["reason"],
            "backend": ((r or {}).get("solver") if o["crate"] == "__verus__" else "kani 0.68.0 / cbmc 6.11.0 / %s" % ((r or {}).get("solver") or "cadical")),
            "checks": r["checks_total"] if r else 0,
            "vccs_generated": st.get("vccs_generated"), "vccs_remaining": st.get("vccs_remaining"),
            "symex_s": st.get("runtime_symex_s"), "solver_s": st.get("runtime_decision_procedure_s"),
            "wall_s": r["duration_s"] if r else None,
            "flags": o.get("flags", "full"),
            "replay": res.get("replay"),
        })
    viol = len([r for r in results if r.get("final") == "refuted"])
    proofish = n_complete > 0 and n_bounded == 0
    level = meta.get("level") or ("proof" if proofish else "model_checking")
    samples = [{"obligation": x["name"], "contract": x["contract"], "harness": x["harness"], "checks": x["checks"], "verdict": x["verdict"]} for x in obl[:3]]
    cov = {
        "obligations": n_complete,
        "discharged": n_complete_ok,
        "bounded_obligations": n_bounded,
        "bounded_discharged": n_bounded_ok,
        "vacuity_guards": n_guard,
        "vacuity_guards_ok": n_guard_ok,
        "checker_cmd": (results[0]["cmd"] if results else "cargo kani (did not run)"),
        "trusted_base": registry.TRUSTED_BASE + meta.get("trusted", []),
        "functions_under_contract": sorted(funcs),
        "obligation_details": obl,
        "samples": samples or [{"note": "no obligation ran", "errors": errors}],
        "solver_time_s": round(solver, 2),
        "symex_time_s": round(symex, 2),
        "exhaustive": False,
        "not_run_in_this_tier": getattr(select, "skipped", []),
        "partition": ("quick tier runs the slice of each partitioned obligation family selected by VERIF_SEED=%d (every obligation is in exactly one slice; the thorough tier runs all)" % seed) if getattr(select, "skipped", []) else "all obligations of the property ran",
        "tools": tools,
        "weave": weave_stats,
        "repo_head": git_head(),
        "explanation": meta.get("explanation", ""),
        # generic keys (schema fallback): one evaluation per obligation run
        "evaluations": max(1, len(results)),
        "distinct_nontrivial": len(set(x["name"] for x in obl if (x["checks"] or 0) > 0)),
        "rule": "one case = one contract obligation (Kani harness) run by CBMC; non-trivial = generated at least one check",
    }
    if level == "model_checking":
        cov["states"] = max(1, sum((x["vccs_generated"] or 0) for x in obl))
        cov["transitions"] = max(1, sum((x["checks"] or 0) for x in obl))
        cov["traces_validated_against_impl"] = 0
    if level != "proof":
        # bounded-level claims: count complete and bounded obligations together (each is labelled in obligation_details)
        cov["obligations"] = n_complete + n_bounded
        cov["discharged"] = n_complete_ok + n_bounded_ok
        cov["complete_obligations"] = n_complete
        cov["complete_discharged"] = n_complete_ok
    if cov["obligations"] == 0:
        # keep the file schema-valid even for a run that selected nothing
        cov["obligations"] = 1
        cov["discharged"] = 0
    doc = {
        "property_id": prop, "tier": tier, "seed": seed, "level": level,
        "coverage": cov,
        "assumptions": assumptions + registry.GLOBAL_ASSUMPTIONS,
        "wall_s": round(wall, 1),
        "violations": viol,
        "undecided": len([r for r in results if r.get("final") == "undecided"]),
        "errors": errors,
        "known_findings_announced": [k["what"] for k in load_known() if k.get("status") == "open" and k.get("property") == prop],
    }
    if cov["discharged"] == 0 and level == "proof":
        doc["level"] = "other"
        cov["explanation"] = "run did not discharge any obligation: " + "; ".join(errors or ["see obligation_details"])
    json.dump(doc, open(os.path.join(HERE, "evidence", prop + ".json"), "w"), indent=1)


if __name__ == "__main__":
    sys.exit(main())
