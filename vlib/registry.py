"""Registry: where contracts and harness modules are woven in, and the obligations per property."""
import os, subprocess, hashlib

TRUSTED_BASE = [
    "rustc front end of Kani's pinned nightly; Kani 0.68.0 MIR->GOTO translation and its models of core/std intrinsics",
    "CBMC 6.11.0 symbolic execution + CaDiCaL SAT",
    "weaving (vlib/runner.py): attribute/module insertion into a copy of /repo's working tree; rewrites listed in DESIGN 3.1",
]
GLOBAL_ASSUMPTIONS = [
    "Kani verifies the code as compiled with debug_assertions and overflow-checks ON; release-profile differences are listed in DESIGN section 7",
    "cargo kani ignores /repo/.cargo/config.toml rustflags (-Ctarget-cpu=native): cfg(target_feature=\"bmi2\") bodies are outside the verified text",
]

CONTRACTS = []   # dict(file, anchor, [within], attrs=[...])
REWRITES = []    # dict(file, pattern, repl, min)
HOSTS = []       # dict(crate, file, mod, src, [pub])
EXTRA_WEAVE = []
OBLIGATIONS = []
PROPERTY_META = {}
CRATE_ARGS = {}   # extra cargo arguments per crate (feature selection)


def host(crate, file, mod, src, pub=False):
    HOSTS.append(dict(crate=crate, file=file, mod=mod, src=src, pub=pub, support=(mod.startswith("verif_") or mod in ("kani_verif_common", "kani_verif_deps", "kani_verif_arb"))))


def ob(name, props, crate, harness, **kw):
    if isinstance(props, str):
        props = [props]
    d = dict(name=name, props=props, crate=crate, harness=harness)
    d.update(kw)
    OBLIGATIONS.append(d)
    return d


def pre_check(prop, here):
    """Spec self-check gate (DESIGN 3.2): properties whose oracle is the rules-of-chess spec require the native
    perft self-check of the spec to have passed for the current spec sources."""
    if prop not in SPEC_PROPS:
        return
    from vlib.runner import Undecided
    stamp = os.path.join(here, ".cache", "spec_ok")
    h = spec_hash(here)
    if os.path.exists(stamp) and open(stamp).read().strip() == h:
        return
    r = subprocess.run([os.path.join(here, "spec", "selfcheck.sh")], cwd=here)
    if r.returncode != 0:
        raise Undecided("spec self-check (published perft numbers) failed")


def spec_hash(here):
    m = hashlib.sha1()
    d = os.path.join(here, "spec")
    for f in sorted(os.listdir(d)):
        if f.endswith(".rs"):
            m.update(open(os.path.join(d, f), "rb").read())
    return m.hexdigest()


SPEC_PROPS = set()

# =========================================================================== C14
host("chess-engine", "chess-engine/src/lib.rs", "kani_verif_c14", "harness/chess-engine/c14.rs")
_f14 = ["<chess_engine::Score as Ord>::cmp", "<Score as PartialOrd>::partial_cmp", "<Score as PartialEq>::eq (derived)",
        "Score::kind", "<ScoreKind as Ord>::cmp (derived)", "Ord::max / Ord::min on Score"]
ob("C14.cmp", "C14", "chess-engine", "kani_verif_c14::c14_cmp", kind="complete", flags="safety", timeout=300,
   functions=_f14[:1] + _f14[3:5],
   contract="{true} a.cmp(&b) {r == lexicographic (rank, key) order; rank Min<BlackMateIn<Raw<WhiteMateIn<Max; key = x | x | -x} for all pairs (5 tags x u16/i32 payloads)")
ob("C14.partial_eq_ord", "C14", "chess-engine", "kani_verif_c14::c14_partial_eq_ord", kind="complete", flags="safety", timeout=300,
   functions=_f14[:3],
   contract="partial_cmp == Some(cmp); (a==b) <=> cmp==Equal <=> same variant and payload; <,<=,>,>= agree with cmp; all pairs")
ob("C14.laws", "C14", "chess-engine", "kani_verif_c14::c14_laws", kind="complete", flags="safety", timeout=300,
   functions=_f14[:1],
   contract="reflexive-equal, antisymmetric, transitive, total on all triples; sentinels extreme; every white mate > every numeric > every black mate; quicker white mate greater; slower black mate greater; numeric by value")
ob("C14.max_min", "C14", "chess-engine", "kani_verif_c14::c14_max_min", kind="complete", flags="safety", timeout=300,
   functions=_f14[5:],
   contract="a.max(b) / a.min(b) is one of the arguments and is the spec upper / lower bound")
ob("C14.cover", "C14", "chess-engine", "kani_verif_c14::c14_cover", kind="cover", flags="safety", timeout=300,
   contract="vacuity guard: all variant classes reachable through the generators")
ob("C14.negtwin", "C14", "chess-engine", "kani_verif_c14::c14_negtwin", kind="negtwin", expect="refuted", flags="safety", timeout=300,
   contract="negated twin of C14.cmp: must be refuted")
PROPERTY_META["C14"] = dict(
    level="proof",
    explanation="Harness-stated contracts on the real Ord/PartialOrd/PartialEq impls of chess_engine::Score (the derived Ord of ScoreKind is compiled for real), full symbolic domain, loop-free: complete proof for all pairs/triples.",
    assumptions=["spec order (rank,key) written from the property statement is the definition of 'game-theoretic preference' used here"],
)

# =========================================================================== C16
host("chess-api", "chess-api/src/lib.rs", "kani_verif_c16", "harness/chess-api/c16.rs")
_f16 = ["From<ChessMove> for StableChessMove", "From<StableChessMove> for ChessMove", "From<ChessMove> for StableOptionalChessMove",
        "From<Option<ChessMove>> for StableOptionalChessMove", "From<StableOptionalChessMove> for Option<ChessMove>",
        "EvaluatedMove::new", "EvaluatedMove::chess_move", "EvaluatedMove::score"]
ob("C16.move", "C16", "chess-api", "kani_verif_c16::c16_move", kind="complete", flags="safety", timeout=300, functions=_f16[:2],
   contract="for all 64x64x5 moves m: ChessMove::from(StableChessMove::from(m)) == m")
ob("C16.opt_move", "C16", "chess-api", "kani_verif_c16::c16_opt_move", kind="complete", flags="safety", timeout=300, functions=_f16[2:7],
   contract="for all m, s: Some(m) -> Stable -> Some(m); None -> None; EvaluatedMove::new(x, s).chess_move() == x")
ob("C16.score", "C16", "chess-api", "kani_verif_c16::c16_score", kind="complete", flags="safety", timeout=300, functions=[_f16[5], _f16[7]],
   contract="for all scores s (5 variants, full u16/i32 payloads) and optional moves: EvaluatedMove::new(mv, s).score() == s")
ob("C16.cover", "C16", "chess-api", "kani_verif_c16::c16_cover", kind="cover", flags="safety", timeout=300, contract="vacuity guard")
ob("C16.negtwin", "C16", "chess-api", "kani_verif_c16::c16_negtwin", kind="negtwin", expect="refuted", flags="safety", timeout=300,
   contract="negated twin of C16.move: must be refuted")
PROPERTY_META["C16"] = dict(
    level="proof",
    explanation="Harness-stated contracts on the real conversion impls of chess-api (abi_stable derives compiled for real), full symbolic domain of moves, optional moves and scores, loop-free: complete proof, strictly stronger than the sampled numeric scores the property mentions.",
    assumptions=["the abi_stable plugin loading path and NonNull::<F>::dangling().read() in ChessApi::new are outside this property and unverified"],
)

# =========================================================================== C20
host("tracing-enabled", "tracing-enabled/src/lib.rs", "kani_verif_c20", "harness/tracing-enabled/c20.rs")
_f20 = ["tracing_enabled::is_enabled", "local_enable", "local_disable", "local_toggle", "enable", "disable", "toggle", "local_take", "restore"]
ob("C20.is_enabled", "C20", "tracing-enabled", "kani_verif_c20::c20_is_enabled", kind="complete", flags="safety", timeout=300, functions=_f20[:1],
   contract="is_enabled() == match L {Global => G, Enabled => true, Disabled => false}; L' == L, G' == G; all 3x2 states")
ob("C20.local_ops", "C20", "tracing-enabled", "kani_verif_c20::c20_local_ops", kind="complete", flags="safety", timeout=300, functions=_f20[1:4],
   contract="local_enable/local_disable/local_toggle: L' = Enabled/Disabled/toggled(L) (Global stays Global); G' == G")
ob("C20.global_ops", "C20", "tracing-enabled", "kani_verif_c20::c20_global_ops", kind="complete", flags="safety", timeout=300, functions=_f20[4:7],
   contract="enable/disable: L' = Enabled/Disabled and G' = true/false; toggle: L' = toggled(L), G' = !G")
ob("C20.take_restore", "C20", "tracing-enabled", "kani_verif_c20::c20_take_restore", kind="complete", flags="safety", timeout=300, functions=_f20[7:],
   contract="local_take: returns L, L' = Global, G' == G; restore(s): L' = s, G' == G; restore(local_take()) after any one intervening operation returns L")
ob("C20.other_thread", "C20", "tracing-enabled", "kani_verif_c20::c20_other_thread_effects", kind="complete", flags="safety", timeout=300, functions=_f20[:1],
   contract="after any effect another thread's operations can have (arbitrary G, by their frames), L_A unchanged and is_enabled() == L_A if set else latest G")
ob("C20.cover", "C20", "tracing-enabled", "kani_verif_c20::c20_cover", kind="cover", flags="safety", timeout=300, contract="vacuity guard")
ob("C20.negtwin", "C20", "tracing-enabled", "kani_verif_c20::c20_negtwin", kind="negtwin", expect="refuted", flags="safety", timeout=300,
   contract="negated twin of C20.is_enabled: must be refuted")
PROPERTY_META["C20"] = dict(
    level="proof",
    explanation="Sequential contracts (postcondition + frame over both state components) on all nine real functions, all 3x2 states x all operations, loop-free: complete. The interleaving statement is the lemma 'each operation touches L_own and performs at most one access to the single atomic G' + Rust's thread_local! guarantee that L_A and L_B are distinct objects; Kani has no threads, so real scheduling and Release/Acquire ordering are NOT explored.",
    assumptions=["thread_local! gives each thread its own LOCAL_ENABLED (language guarantee, trusted)",
                 "operation-granularity interleavings are complete because each operation accesses the single atomic at most once (checked by reading the 9 function bodies; enable/disable/toggle do a local op then one atomic op)",
                 "memory ordering (Release/Acquire) effects are outside Kani's sequential model"],
    level_note="proof of the sequential contracts and frames; thread isolation follows by a stated lemma resting on thread_local! semantics (not machine-checked); no real concurrency explored",
)

# =========================================================================== chess-bitboard: Arbitrary impls, C18
host("chess-bitboard", "chess-bitboard/src/lib.rs", "kani_verif_arb", "harness/chess-bitboard/arb.rs")
host("chess-bitboard", "chess-bitboard/src/lib.rs", "kani_verif_c18", "harness/chess-bitboard/c18.rs")
_BB = "chess-bitboard/src/lib.rs"
CONTRACTS.append(dict(file=_BB, anchor=r"pub unsafe fn pop_unchecked\(&mut self\) -> Pos", attrs=[
    "kani::requires(self.0 != 0)",
    "kani::ensures(|p: &Pos| { let o = old(self.0); let b = 1u64 << (*p as u8); o & b != 0 && o & (b - 1) == 0 && self.0 == o & !b })",
    "kani::modifies(self)"]))
CONTRACTS.append(dict(file=_BB, anchor=r"pub fn set\(&mut self, pos: Pos\)", attrs=[
    "kani::ensures(|_| self.0 == old(self.0) | (1u64 << (pos as u8)))", "kani::modifies(self)"]))
CONTRACTS.append(dict(file=_BB, anchor=r"pub fn clear\(&mut self, pos: Pos\)", attrs=[
    "kani::ensures(|_| self.0 == old(self.0) & !(1u64 << (pos as u8)))", "kani::modifies(self)"]))
if os.environ.get("VERIF_NO_BB_CONTRACTS"):
    CONTRACTS[:] = [c for c in CONTRACTS if c["file"] != _BB]
_c18 = [
 ("ctor", "c18_ctor", "from_pos/from_file/from_rank/empty/from_u64/to_u64/contains/From<Pos|File|Rank|u64|Option<T>>: membership of every square q equals q==p / file(q)==f / rank(q)==r / bit q", ["BitBoard::from_pos", "BitBoard::from_file", "BitBoard::from_rank", "BitBoard::empty", "BitBoard::from_u64", "BitBoard::to_u64", "BitBoard::contains", "From<Pos|File|Rank|u64|Option<T>> for BitBoard"], {}),
 ("setops", "c18_setops", "or and xor diff not, operators | & ^ - ! |= &= ^= -=, with cleared set clear, -Pos, -=Pos, ==: square-wise boolean law for every q, all pairs of boards", ["BitBoard::or", "BitBoard::and", "BitBoard::xor", "BitBoard::diff", "BitBoard::not", "ops.rs operator impls", "BitBoard::with", "BitBoard::cleared", "BitBoard::set", "BitBoard::clear"], {}),
 ("shifts", "c18_shifts", "shift_up/down/left/right move every square one step, edge squares vanish, nothing wraps; flip_ranks maps q to q^56", ["BitBoard::shift_up", "BitBoard::shift_down", "BitBoard::shift_left", "BitBoard::shift_right", "BitBoard::flip_ranks"], {}),
 ("count", "c18_count", "count == number of members (64-step count); any/none/all/some; size_hint exact", ["BitBoard::count", "BitBoard::any", "BitBoard::none", "BitBoard::all", "BitBoard::some", "BitBoardIter::size_hint"], {}),
 ("pop", "c18_pop", "pop / pop_unchecked: returns the lowest member and removes exactly it; None iff empty", ["BitBoard::pop", "BitBoard::pop_unchecked"], {}),
 ("pop_unchecked.contract", "c18_pop_unchecked_contract", "attribute contract on BitBoard::pop_unchecked: requires non-empty", ["BitBoard::pop_unchecked"], dict(packaging="attribute contract (kani::requires/ensures/modifies woven onto the fn)")),
 ("set.contract", "c18_set_contract", "attribute contract on BitBoard::set", ["BitBoard::set"], dict(packaging="attribute contract")),
 ("clear.contract", "c18_clear_contract", "attribute contract on BitBoard::clear", ["BitBoard::clear"], dict(packaging="attribute contract")),
 ("iter.next", "c18_iter_next", "BitBoardIter::next yields the lowest member; the iterator then equals the iterator over the rest; size_hint drops by one (induction step for: ascending, each member once, then None)", ["BitBoardIter::next", "BitBoard::iter", "IntoIterator for BitBoard"], {}),
 ("iter.nth", "c18_iter_nth", "nth(n) == n x next() then next(), same remaining iterator, result has exactly n members below it; all boards, n <= 3 (portable body = core's default Iterator::nth; the bmi2 body is not compiled under Kani)", ["BitBoardIter::nth (default body)"], dict(kind="bounded", bound="n <= 3 (symbolic n over the full range: no result in 15 min)")),
 ("from_iter", "c18_from_iter", "FromIterator<Pos> / FromIterator<BitBoard>: union of the items", ["FromIterator<Pos> for BitBoard", "FromIterator<BitBoard> for BitBoard"], dict(kind="bounded", bound="iterators of <= 4 squares / <= 3 boards")),
]
for n, h, c, f, kw in _c18:
    d = dict(kind="complete", flags="safety", timeout=600, functions=f, contract=c)
    d.update(kw)
    ob("C18." + n, ["C18", "C07"] if n == "pop_unchecked.contract" else ["C18"], "chess-bitboard", "kani_verif_c18::" + h, **d)
ob("C18.cover", "C18", "chess-bitboard", "kani_verif_c18::c18_cover", kind="cover", flags="safety", timeout=600, contract="vacuity guard")
ob("C18.negtwin", "C18", "chess-bitboard", "kani_verif_c18::c18_negtwin", kind="negtwin", expect="refuted", flags="safety", timeout=600,
   contract="negated twin of the shift_left clause: must be refuted")
PROPERTY_META["C18"] = dict(
    level="proof",
    explanation="Square-wise (set-extensional) contracts on every BitBoard method, operator impl and BitBoardIter method against the plain membership model, for all 2^64 boards and all pairs; loops bounded by the 64-bit width with unwinding assertions on. FromIterator is bounded by iterator length (labelled). The BMI2 fast path of BitBoardIter::nth is NOT in the verified text (cargo kani does not apply -Ctarget-cpu=native and has no model of _pdep_u64).",
    assumptions=["BitBoardIter::nth: only the portable (default Iterator::nth) body is verified; the cfg(target_feature=bmi2) body using _pdep_u64 is not covered",
                 "FromIterator obligations bounded to <= 4 items"],
    level_note="complete for every operation except: FromIterator (bounded by item count) and the BMI2-only body of nth (not covered, tool limit)",
)

# =========================================================================== C19
host("chess-bitboard", "chess-bitboard/src/pos.rs", "kani_verif_c19", "harness/chess-bitboard/c19.rs")
host("chess-movegen", "chess-movegen/src/lib.rs", "kani_verif_c19_move", "harness/chess-movegen/c19_move.rs")
_c19 = [
 ("pos_index", "c19_pos_index", "from_u8/to_u8/const_from_u8 inverse on 0..63, None above; Pos::new(file,rank) <-> (file(),rank()); index = 8*rank+file; File/Rank/Color/Side/Piece::from_u8 domains (all 256 bytes)", ["Pos::from_u8", "Pos::to_u8", "Pos::const_from_u8", "Pos::new", "Pos::file", "Pos::rank", "File::from_u8", "Rank::from_u8", "Color::from_u8", "Side::from_u8", "Piece::from_u8"], {}),
 ("steps", "c19_steps", "shift_up/down/left/right == (file+-1, rank+-1) with None at the edges, mutually inverse; flip_rank involution (rank -> 7-rank); File/Rank shift, flip, dist_to, side, letters", ["Pos::shift_up", "Pos::shift_down", "Pos::shift_left", "Pos::shift_right", "Pos::flip_rank", "File::shift_left", "File::shift_right", "Rank::shift_up", "Rank::shift_down", "Rank::flip", "File::dist_to", "Rank::dist_to", "File::side", "File::lower_letter", "File::upper_letter"], {}),
 ("parse_byte", "c19_parse_byte", "for all 256 bytes: File::from_ascii_byte accepts exactly a-h/A-H; Rank exactly 1-8; Piece / PromotionPiece exactly their letters in either case", ["File::from_ascii_byte", "Rank::from_ascii_byte", "Piece::from_ascii_byte", "PromotionPiece::from_ascii_byte", "PromotionPiece::to_piece"], {}),
 ("parse_slice", "c19_parse_slice", "for ALL byte strings of length <= 3: Pos::from_ascii_bytes accepts exactly [file][rank]; File/Rank/Piece/PromotionPiece::from_ascii_bytes exactly one valid byte (longer strings are rejected by the slice-pattern length)", ["Pos::from_ascii_bytes", "File::from_ascii_bytes", "Rank::from_ascii_bytes", "Piece::from_ascii_bytes", "PromotionPiece::from_ascii_bytes"], {}),
 ("display_roundtrip", "c19_display_roundtrip", "Display of every square / file / rank / promotion piece, written to a byte buffer, parses back to the same value", ["Display for Pos", "Display for File", "Display for Rank", "Display for PromotionPiece"], {}),
 ("iter.color", "c19_iter_color", "Color::all(): any 3 operations from {next,next_back,nth(n),nth_back(n)} (all n) agree with the slice iterator incl. size_hint", ["AllColorIter"], {}),
 ("iter.side", "c19_iter_side", "Side::all(): any 3 operations agree with the slice iterator", ["AllSideIter"], {}),
 ("iter.piece", "c19_iter_piece", "Piece::all(): any 7 operations agree with the slice iterator", ["AllPieceIter"], {}),
 ("iter.file", "c19_iter_file", "File::all(): any 9 operations agree with the slice iterator (8 items: 9 operations exhaust it)", ["AllFileIter (next_with/unwrap_unchecked)"], {}),
 ("iter.rank", "c19_iter_rank", "Rank::all(): any 9 operations agree with the slice iterator", ["AllRankIter (next_with/unwrap_unchecked)"], {}),
 ("iter.squares", "c19_iter_squares", "Pos::all(), File::iter(), Rank::iter(): from an arbitrary internal state next() yields the next square in order, advances by one, size_hint exact (induction step)", ["AllPosIter", "FileIter", "RankIter"], {}),
]
for n, h, c, f, kw in _c19:
    d = dict(kind="complete", flags="safety", timeout=900, functions=f, contract=c)
    d.update(kw)
    ob("C19." + n, ["C19", "C07"] if n in ("iter.file", "iter.rank") else ["C19"], "chess-bitboard", "pos::kani_verif_c19::" + h, **d)
ob("C19.cover", "C19", "chess-bitboard", "pos::kani_verif_c19::c19_cover", kind="cover", flags="safety", timeout=600, contract="vacuity guard")
ob("C19.negtwin", "C19", "chess-bitboard", "pos::kani_verif_c19::c19_negtwin", kind="negtwin", expect="refuted", flags="safety", timeout=600, contract="negated twin: must be refuted")
ob("C19.move_parse", "C19", "chess-movegen", "kani_verif_c19_move::c19_move_parse", kind="complete", flags="safety", timeout=900,
   functions=["ChessMove::from_ascii_bytes"],
   contract="for ALL byte strings of length <= 6: accepted iff `frfr` or `fr-fr` with valid squares; result squares as parsed; piece None (longer strings are rejected by the slice-pattern length)")
ob("C19.move_roundtrip", "C19", "chess-movegen", "kani_verif_c19_move::c19_move_roundtrip", kind="complete", flags="safety", timeout=900,
   functions=["Display for ChessMove", "ChessMove::from_ascii_bytes"],
   contract="all 4096 non-promotion moves: Display -> bytes -> from_ascii_bytes is the identity")
ob("C19.move_negtwin", "C19", "chess-movegen", "kani_verif_c19_move::c19_move_negtwin", kind="negtwin", expect="refuted", flags="safety", timeout=600, contract="negated twin: must be refuted")
PROPERTY_META["C19"] = dict(
    level="proof",
    explanation="Harness-stated contracts on the real conversion, neighbour-step, parser, Display and iterator code, complete over the finite domains (64 squares, 256 bytes, ALL byte strings up to length 3 for squares / 6 for moves, every operation sequence that can exhaust each iterator). Byte strings longer than the longest accepted shape are rejected by a slice-pattern length test (not enumerated).",
    assumptions=["byte strings longer than 3 (square parsers) / 6 (move parser) are covered by the slice-pattern length argument, not by enumeration"],
)

# =========================================================================== chess-lookup: C08, C09, C17, C04.keys
_LK = "chess-lookup/src/lib.rs"
_TBL = "between|bishop_moves|bishop_rays|king_moves|knight_moves|line|rook_moves|rook_rays|zobrist"
# DESIGN 3.1(a): private table modules whose name equals a public accessor are renamed <m>_tbl (Kani's path
# resolver otherwise resolves chess_lookup::<m> to the module and refuses to contract / stub the function)
REWRITES.append(dict(file=_LK, pattern=r"^mod (%s);" % _TBL, repl=r'#[path = "\1.rs"] mod \1_tbl;', min=9))
REWRITES.append(dict(file=_LK, pattern=r"\b(%s)::(SOLUTIONS|MOVES_MAGIC|RAYS|MOVES|PIECE_ZOBRIST|CASTLE_ZOBRIST|EN_PASSANT_ZOBRIST|TURN_ZOBRIST)\b" % _TBL, repl=r"\1_tbl::\2", min=14))
host("chess-lookup", _LK, "verif_geom", "spec/geom.rs", pub=True)
host("chess-lookup", _LK, "kani_verif_lookup", "harness/chess-lookup/lookup.rs")
def _lk_contract(fn, sig, ens):
    CONTRACTS.append(dict(file=_LK, anchor=r"^pub fn %s\(%s" % (fn, sig), attrs=["kani::ensures(%s)" % ens]))
_G = "crate::verif_geom::"
_CL = "(match color { Color::White => 0u8, Color::Black => 1u8 })"
_lk_contract("knight_moves", "pos: Pos", "|r: &BitBoard| r.to_u64() == %sknight_att(pos as u8)" % _G)
_lk_contract("king_moves", "pos: Pos", "|r: &BitBoard| r.to_u64() == %sking_att(pos as u8)" % _G)
_lk_contract("rook_rays", "pos: Pos", "|r: &BitBoard| r.to_u64() == %srook_rays_spec(pos as u8)" % _G)
_lk_contract("bishop_rays", "pos: Pos", "|r: &BitBoard| r.to_u64() == %sbishop_rays_spec(pos as u8)" % _G)
_lk_contract("between", "a: Pos, b: Pos", "|r: &BitBoard| r.to_u64() == %sbetween_spec(a as u8, b as u8)" % _G)
_lk_contract("distance", "a: Pos, b: Pos", "|r: &u8| *r == %sdistance_spec(a as u8, b as u8)" % _G)
_lk_contract("pawn_attacks_moves", "pos: Pos, color: Color", "|r: &BitBoard| r.to_u64() == %spawn_att(pos as u8, %s)" % (_G, _CL))
_lk_contract("pawn_attacks", "pos: Pos, color: Color, all_pieces: BitBoard", "|r: &BitBoard| r.to_u64() == %spawn_att(pos as u8, %s) & all_pieces.to_u64()" % (_G, _CL))
_lk_contract("pawn_quiets", "pos: Pos, color: Color, all_pieces: BitBoard", "|r: &BitBoard| r.to_u64() == %spawn_push(pos as u8, %s, all_pieces.to_u64())" % (_G, _CL))
_lk_contract("pawn_moves", "pos: Pos, color: Color, all_pieces: BitBoard", "|r: &BitBoard| r.to_u64() == (%spawn_push(pos as u8, %s, all_pieces.to_u64()) | (%spawn_att(pos as u8, %s) & all_pieces.to_u64()))" % (_G, _CL, _G, _CL))

_ATTR = "attribute contract (kani::ensures woven onto the fn, discharged by proof_for_contract, reusable by stub_verified)"
_HS = "harness-stated contract; reused at call sites through hand-instantiated contract stubs (havoc + assume ensures), full or weakened to the queried square. These three accessors (rook_moves, bishop_moves, line) carry no attribute contract because kani::stub cannot target a function that has one."
for kind_, fn, spec in (("rook", "rook_moves", "rook_att"), ("bishop", "bishop_moves", "bishop_att")):
    for gi in range(4):
        ob("C08.%s.g%d" % (kind_, gi), ["C08", "C07"], "chess-lookup", "kani_verif_lookup::c08_%s_g%d" % (kind_, gi), kind="complete", flags="safety",
           timeout=1500, mem_gb=6, functions=["chess_lookup::" + fn], packaging=_HS,
           contract="%s(pos, occ) == %s(pos, occ) [ray casting up to and including the first blocker] for squares %d..%d x ALL 2^64 occupancies; table index in range (debug_assert + bounds check)" % (fn, spec, gi * 16, gi * 16 + 15))
    ob("C08.%s.all" % kind_, ["C08"], "chess-lookup", "kani_verif_lookup::c08_%s_all" % kind_, kind="complete", flags="safety", tier="thorough",
       timeout=3600, mem_gb=10, functions=["chess_lookup::" + fn], packaging=_HS,
       contract="%s(pos, occ) == %s(pos, occ) for a symbolic square and ALL 2^64 occupancies in one query" % (fn, spec))
ob("C08.cover", "C08", "chess-lookup", "kani_verif_lookup::c08_cover", kind="cover", flags="safety", timeout=900, mem_gb=6, contract="vacuity guard")
ob("C08.negtwin", "C08", "chess-lookup", "kani_verif_lookup::c08_negtwin", kind="negtwin", expect="refuted", flags="safety", timeout=900, mem_gb=6, contract="negated twin (d4): must be refuted")
PROPERTY_META["C08"] = dict(
    level="proof",
    explanation="Harness-stated contracts on the real chess_lookup::rook_moves / bishop_moves (result == ray casting spec), discharged for a symbolic square and ALL 2^64 occupancies (quick: 4 square groups per slider in parallel, together covering all 64 squares; thorough: additionally one query). The in-code debug_assert!(index < SOLUTIONS.len()) and the checked table read are obligations of the same harnesses. Strictly stronger than exhausting the <= 2^14 relevant subsets and sampling independence: occupancy is unconstrained.",
    assumptions=["release builds replace the checked table read by get_unchecked at the index proved in range (cfg!(debug_assertions) branch)",
                 "generator agreement: the generator's private magic-search `solve` closures are not callable under Kani; table == spec is proved here, generator-solver == spec is by inspection only"],
)

_c09 = [("knight", "knight_moves", "knight_att(pos)"), ("king", "king_moves", "king_att(pos)"), ("rook_rays", "rook_rays", "rook_att(pos, empty)"),
        ("bishop_rays", "bishop_rays", "bishop_att(pos, empty)"), ("between", "between", "squares strictly between a and b, empty if not aligned (64x64)"),
        ("line", "line", "whole line through a and b edge to edge, empty if not aligned (64x64)"), ("distance", "distance", "Chebyshev distance (64x64)"),
        ("pawn_attacks_moves", "pawn_attacks_moves", "the <= 2 forward-diagonal squares (64 x 2 colours)"),
        ("pawn_attacks", "pawn_attacks", "forward-diagonal squares that are occupied (64 x 2 x ALL occupancies)"),
        ("pawn_quiets", "pawn_quiets", "single push if empty; double push from the start rank if both empty (64 x 2 x ALL occupancies)"),
        ("pawn_moves", "pawn_moves", "pushes | occupied capture squares (64 x 2 x ALL occupancies)")]
for n, fn, c in _c09:
    ob("C09." + n, ["C09"], "chess-lookup", "kani_verif_lookup::c09_%s_contract" % n, kind="complete", flags="safety", timeout=900, mem_gb=6,
       functions=["chess_lookup::" + fn], packaging=(_HS if n == "line" else _ATTR), contract="%s == %s, no wrap-around (spec walks (file,rank) pairs)" % (fn, c))
host("chess-lookup-generator", "chess-lookup-generator/src/lib.rs", "verif_geom", "spec/geom.rs", pub=True)
host("chess-lookup-generator", "chess-lookup-generator/src/lib.rs", "kani_verif_gen", "harness/chess-lookup-generator/gen.rs")
CRATE_ARGS["chess-lookup-generator"] = ["--no-default-features"]
for _n, _f in (("rays", ["chess_lookup_generator::rook_rays", "chess_lookup_generator::bishop_rays"]), ("leapers", ["chess_lookup_generator::knight_moves", "chess_lookup_generator::king_moves"]), ("pawns", ["chess_lookup_generator::pawn_attacks", "chess_lookup_generator::pawn_quiets"])):
    ob("C09.gen." + _n, ["C09"], "chess-lookup-generator", "kani_verif_gen::c09_gen_" + _n, kind="complete", flags="safety", timeout=900, mem_gb=3, functions=_f,
       contract="the generator's per-square function equals the same geometric definition the checked-in table is proved equal to (all 64 squares, both colours): table == generator")
ob("C09.constants", "C09", "chess-lookup", "kani_verif_lookup::c09_constants", kind="complete", flags="safety", timeout=900, mem_gb=6,
   functions=["PAWN_DOUBLE_SOURCE", "PAWN_DOUBLE_DEST", "BACKRANK", "BACKRANK_BB", "CASTLE_MOVES", "PAWN_DOUBLE_MOVE", "ROOK_CASTLE_QUEENSIDE", "ROOK_CASTLE_KINGSIDE", "CASTLE_ROOK_START", "CASTLE_ROOK_END", "PROMOTION_RANK", "PAWN_DOUBLE_MOVE_SOURCE_RANK", "PAWN_DOUBLE_MOVE_DEST_RANK", "ADJACENT_FILES", "ADJACENT_RANKS", "KINGSIDE_CASTLE_FILES", "QUEENSIDE_CASTLE_FILES", "KINGSIDE_CASTLE_SAFE_FILES", "QUEENSIDE_CASTLE_SAFE_FILES", "Color::enpassant_capture_rank", "Color::enpassant_pawn_rank"],
   contract="every castling / promotion / double-step / adjacency constant equals its definition in terms of rank and file sets")
ob("C09.cover", "C09", "chess-lookup", "kani_verif_lookup::c09_cover", kind="cover", flags="safety", timeout=900, mem_gb=6, contract="vacuity guard")
ob("C09.negtwin", "C09", "chess-lookup", "kani_verif_lookup::c09_negtwin", kind="negtwin", expect="refuted", flags="safety", timeout=900, mem_gb=6, contract="negated twin of between: must be refuted")
PROPERTY_META["C09"] = dict(
    level="proof",
    explanation="Attribute contracts on every geometry accessor of chess-lookup against the ray/step-walking spec, discharged over the complete finite domains (symbolic square(s), colour, and for the pawn helpers ALL 2^64 occupancies rather than the 2^k relevant ones); constants by a ground/symbolic-index obligation. Generator agreement: chess_lookup_generator's per-square functions are contracted against the same spec (C09.gen.*).",
    assumptions=["generator between()/line() build whole Vecs with iterator chains; they are not verified (tool cost) — table == spec is proved directly instead"],
)

ob("C04.keys", ["C04"], "chess-lookup", "kani_verif_lookup::c04_keys", kind="complete", flags="safety", timeout=1800, mem_gb=8,
   functions=["chess_lookup::zobrist", "castle_rights_zobrist", "en_passant_zobrist", "turn_zobrist"],
   contract="for all flattened indices i != j < 794 (768 piece keys, 16 castling, 8 en-passant, 2 turn; read through the public accessors): key(i) != 0 and key(i) != key(j)")

ob("C17.next", ["C17", "C07"], "chess-lookup", "kani_verif_lookup::c17_next", kind="complete", flags="safety", timeout=1800, mem_gb=8,
   functions=["<chess_lookup::BookMovesIter as Iterator>::next"],
   contract="for EVERY index < BOOK_SIZE: no out-of-range get_unchecked, no usize underflow, no panic; Some(mv) => mv.children.index < index, new cursor < index, squares < 64 (=> every traversal from any node terminates and stays in the table)")
ob("C17.entry", ["C17"], "chess-lookup", "kani_verif_lookup::c17_entry", kind="ground", flags="safety", timeout=1800, mem_gb=8,
   functions=["INITIAL_BOOOK_MOVES", "EMPTY_BOOK_MOVES", "BookMoves::into_iter"],
   contract="entry indices are BOOK_SIZE-1 and 0, BOOK.len() == BOOK_SIZE; the empty node yields nothing, the root yields a move")
ob("C17.negtwin", "C17", "chess-lookup", "kani_verif_lookup::c17_negtwin", kind="negtwin", expect="refuted", flags="safety", timeout=1800, mem_gb=8, contract="negated twin: must be refuted")
PROPERTY_META["C17"] = dict(
    level="proof",
    explanation="Traversal-safety half of C17 only: contract on the real BookMovesIter::next over a symbolic index into the real 87204-entry table (bounds, underflow, strict decrease => termination inside the table). The legality of the 29k book lines ('each move is legal in the position reached, no promotion choice') is data validation through the move generator - a ground computation no contract shortens - and is NOT decided by this check.",
    assumptions=["legality of every book line is not decided (would be exhaustive execution of 29k nodes through the generator: a different technique)"],
    level_note="proof of traversal termination/bounds for every table index; the 'every line is a legal game' clause is undecided and stated as such",
)

# =========================================================================== chess-movegen: shared, C06 validation, C03 pin info
_MG = "chess-movegen/src/lib.rs"
host("chess-movegen", _MG, "verif_geom", "spec/geom.rs", pub=True)
host("chess-movegen", _MG, "verif_rules", "spec/rules.rs", pub=True)
host("chess-movegen", _MG, "verif_fen", "spec/fen.rs", pub=True)
host("chess-movegen", _MG, "kani_verif_common", "harness/chess-movegen/common.rs")
host("chess-movegen", _MG, "kani_verif_deps", "harness/chess-movegen/deps.rs")
host("chess-movegen", _MG, "kani_verif_c06", "harness/chess-movegen/c06.rs")
SPEC_PROPS.update(["C01", "C02", "C03", "C05", "C06", "C07", "C10"])
ob("C06.validate.sound", ["C06"], "chess-movegen", "kani_verif_c06::c06_validate_sound", kind="complete", flags="full", timeout=1800, mem_gb=3,
   functions=["Board::validate", "Board::validate_en_passant", "Board::validate_castle_rights", "RawBoard::has_kings", "RawBoard::get"],
   contract="{raw is a placement, rights < 16} validate() {Ok => one king per side AND <= 16 per side AND side not to move not in check AND each right only with king and that rook at home AND e.p. marker only on an empty square behind an enemy pawn on its double-step rank}; full symbolic Board")
ob("C06.validate.complete", ["C06"], "chess-movegen", "kani_verif_c06::c06_validate_complete", kind="complete", flags="full", timeout=1800, mem_gb=3,
   functions=["Board::validate"], contract="playable(view(self)) => validate() == Ok (no over-rejection: every canonical FEN of a reachable position passes validation)")
ob("C06.validate.errors", ["C06"], "chess-movegen", "kani_verif_c06::c06_validate_errors", kind="complete", flags="full", timeout=1800, mem_gb=3,
   functions=["Board::validate"], contract="each error variant is returned only when its clause is violated")
ob("C06.has_kings", ["C06"], "chess-movegen", "kani_verif_c06::c06_has_kings", kind="complete", flags="full", timeout=900, mem_gb=4,
   functions=["RawBoard::has_kings"], contract="has_kings() == exactly one king of each colour, all placements")
ob("C06.build", ["C06", "C03"], "chess-movegen", "kani_verif_c06::c06_build", kind="complete", flags="full", timeout=1800, mem_gb=5, stubs=["Board::update_pin_info -> contract stub (C03.pin_info.*)"],
   functions=["BoardBuilder::build", "Board::validate"],
   contract="build() == Ok(b) only if validate() accepted the builder's board; b has the same position and hash; b.checkers/pinned == spec; Err(e) == validate()'s error")
ob("C06.cover", "C06", "chess-movegen", "kani_verif_c06::c06_cover", kind="cover", flags="full", timeout=1800, mem_gb=3, contract="vacuity guard: accepted boards with all rights / e.p. for either colour / 16+16 pieces exist")
ob("C06.negtwin", "C06", "chess-movegen", "kani_verif_c06::c06_negtwin", kind="negtwin", expect="refuted", flags="full", timeout=1800, mem_gb=3, contract="negated twin: must be refuted")

# =========================================================================== C10 move iterator
host("chess-movegen", "chess-movegen/src/fen.rs", "kani_verif_fen", "harness/chess-movegen/fen.rs")
host("chess-movegen", "chess-movegen/src/fen.rs", "kani_verif_fen_helpers", "harness/chess-movegen/fen_helpers.rs")
host("chess-movegen", "chess-movegen/src/iter.rs", "kani_verif_c10", "harness/chess-movegen/c10.rs")
host("chess-movegen", "chess-movegen/src/iter/pieces.rs", "kani_verif_c01", "harness/chess-movegen/c01.rs")
_c10 = [
 ("next", "c10_next", "{wf(g), entries of one source disjoint} next() {None <=> view(g) empty; Some(m) => m in view(old), m not in view/pending(new), every other move's membership in view and pending unchanged, |view| drops by exactly 1, wf preserved}", ["<MoveGen as Iterator>::next"]),
 ("len", "c10_len", "{wf(g)} len() == |view(g)|; is_empty() <=> |view| == 0; size_hint() == (len, Some(len)); count() == len — at every point of an iteration incl. a partly expanded promotion", ["MoveGen::len", "MoveGen::is_empty", "MoveGen::size_hint", "MoveGen::count"]),
 ("set_mask", "c10_set_mask", "{cursor at rest} set_mask(m) {pending unchanged (the raw-pointer compaction is a permutation); view(new) = {q in pending : q.dest in m}; index = 0; wf}", ["MoveGen::set_mask"]),
 ("remove", "c10_remove", "{wf, cursor at rest} remove(m) {pending(new) = pending minus dest in m; view(new) = view minus dest in m; wf}", ["MoveGen::remove"]),
 ("remove_move", "c10_remove_move", "{wf, distinct, cursor at rest, mv has no promotion piece and hits no promotion entry (open finding K1)} remove_move(mv) {result <=> mv in pending(old); pending/view lose exactly mv; wf}", ["MoveGen::remove_move"]),
 ("clone", "c10_clone", "clone has the same view and pending; advancing the clone leaves the original unchanged", ["<MoveGen as Clone>::clone (derived)"]),
]
for n, h, c, f in _c10:
    _pp = ["C10", "C07"] if n in ("next", "set_mask", "len") else ["C10"]
    _cap = 3 if n == "len" else 6   # len: equality of two sums of popcounts is the slow query (cap6: 600 s)
    ob("C10.%s.cap%d" % (n, _cap), _pp, "chess-movegen", "iter::kani_verif_c10::cap%d::" % _cap + h, kind="bounded", bound="iterator with <= %d entries (all 64-bit destination sets, masks, indices, cursor states)" % _cap, flags="full", timeout=1800, mem_gb=5, functions=f, contract=c)
    if n == "len":
        ob("C10.len.cap6", ["C10"], "chess-movegen", "iter::kani_verif_c10::cap6::" + h, kind="bounded", bound="iterator with <= 6 entries", tier="thorough", flags="full", timeout=3600, mem_gb=5, functions=f, contract=c)
    if n in ("next", "set_mask"):
        # measured to finish at the real capacity: next 901 s, set_mask 4322 s; the other operations were not measured
        # at 18 entries within this session and are therefore not registered (an obligation that times out would make
        # the thorough command exit 2)
        ob("C10." + n, _pp, "chess-movegen", "iter::kani_verif_c10::cap18::" + h, kind="complete", tier="thorough", flags="full", timeout=14400, mem_gb=12, functions=f, contract=c + " — up to the real capacity of 18 entries")
ob("C10.ctor", ["C10"], "chess-movegen", "iter::kani_verif_c10::c10_ctor", kind="complete", flags="full", timeout=1800, mem_gb=4,
   functions=["Board::legals", "Board::legals_masked (wrapping of the entry list)"],
   contract="spec-level lemma at the real capacity 18: an entry list in which every entry is non-empty and inside the mask (the last one possibly carrying unmasked castling destinations — C01 well_shaped clauses) wrapped with index 0 and a rested cursor satisfies wf, and view == pending restricted to the mask")
ob("C10.cover", "C10", "chess-movegen", "iter::kani_verif_c10::cap6::c10_cover", kind="cover", flags="full", timeout=2400, mem_gb=8, contract="vacuity guard: 18 entries, mid-promotion cursor, knight promotion yielded, None with entries left")
ob("C10.negtwin", "C10", "chess-movegen", "iter::kani_verif_c10::cap6::c10_negtwin", kind="negtwin", expect="refuted", flags="full", timeout=2400, mem_gb=8, contract="negated twin of len: must be refuted")
ob("C10.K1.witness", "C10", "chess-movegen", "iter::kani_verif_c10::c10_k1_witness", kind="witness", expect="refuted", flags="full", timeout=900, mem_gb=4,
   contract="open known finding K1, concrete witness: remove_move(a7a8=Q) must leave a7a8=R pending — must still be refuted")
ob("C10.K2.witness", "C10", "chess-movegen", "iter::kani_verif_c10::c10_k2_witness", kind="witness", expect="refuted", flags="full", timeout=900, mem_gb=4,
   contract="open known finding K2, concrete witness: set_mask while a promotion destination is partly expanded — must still be refuted")
PROPERTY_META["C10"] = dict(
    level="model_checking",
    level_note="quick tier: bounded to iterators of <= 6 entries (every entry/mask/index/cursor value); thorough tier: next and set_mask at the real capacity 18 (complete; 15 and 72 min), len at 6 entries; covering-mask and staging statements by lemma; two open known findings carved out",
    explanation="QUICK TIER IS BOUNDED (<= 6 entries; len <= 3); the thorough tier runs next and set_mask at the real capacity 18 and len at 6 entries. Contracts on every MoveGen operation over an ARBITRARY iterator value (symbolic entries, symbolic mask, index and promotion cursor) under the structural invariant wf that construction and every operation establish (wf preservation is part of each postcondition); membership of a nondeterministic query move gives set-extensional equality of view/pending. Loops bounded by the capacity 18 with unwinding assertions. 'Every move exactly once under successive covering masks' and the engine staging (remove_move; set_mask(captures); drain; set_mask(all); drain) are lemmas over these contracts (not machine-checked). Two genuine defects are recorded as open known findings with narrow carve-outs (K1: remove_move ignores the promotion field; K2: set_mask/remove/remove_move while a promotion destination is partly expanded).",
    assumptions=["generator establishes wf + 'entries of one source square have disjoint destinations' (C01 obligations)",
                 "covering-masks and engine-staging statements follow from the per-operation contracts by the stated lemma (DESIGN section 5 C10), not machine-checked",
                 "carve-outs of open known findings K1, K2 (known_findings.json)"],
)

# =========================================================================== C04 hash, C03 small
host("chess-movegen", _MG, "kani_verif_c04", "harness/chess-movegen/c04.rs")
host("chess-movegen", _MG, "kani_verif_c02", "harness/chess-movegen/c02.rs")
host("chess-movegen", _MG, "kani_verif_c07", "harness/chess-movegen/c07.rs")
ob("C04.xor", ["C04", "C02"], "chess-movegen", "kani_verif_c04::c04_xor", kind="complete", flags="full", timeout=1800, mem_gb=6,
   functions=["Board::xor", "RawBoard::xor"], packaging="harness-stated contract; reused at call sites through the hand-instantiated contract stub xor_contract_stub (assert requires / havoc / assume ensures)",
   contract="{|diff| <= 2 (every call site)} Board::xor(color, piece, diff) {colour set and piece set ^= diff, the other six sets unchanged, zobrist ^= keys of diff's squares for (piece, colour), every other field unchanged}")
ob("C04.read", ["C04", "C07"], "chess-movegen", "kani_verif_c04::c04_read", kind="complete", flags="full", timeout=900, mem_gb=4,
   functions=["Board::zobrist", "CastleRights::to_index"],
   contract="zobrist() == piece-hash field ^ turn key ^ (e.p. file key if any) ^ castling key; independent of clocks and cached sets")
ob("C04.eq_hash", ["C04"], "chess-movegen", "kani_verif_c04::c04_eq_hash", kind="complete", flags="full", timeout=1800, mem_gb=6,
   functions=["<Board as PartialEq>::eq", "<Board as Hash>::hash", "Board::zobrist"],
   contract="a == b <=> same placement, side, rights, e.p. file (clocks ignored); a == b => a.zobrist() == b.zobrist() (given hash field = function of placement); Hash feeds exactly zobrist()")
ob("C04.standard", ["C04", "C05", "C03"], "chess-movegen", "kani_verif_c04::c04_standard", kind="ground", flags="full", timeout=1800, mem_gb=6,
   functions=["Board::standard", "RawBoard::standard"],
   contract="Board::standard(): hash literal == from-scratch piece hash; standard placement/turn/rights; valid; cached sets == spec")
ob("C04.builder", ["C04", "C05"], "chess-movegen", "kani_verif_c04::c04_builder", kind="complete", flags="full", timeout=1800, mem_gb=6,
   functions=["BoardBuilder::place", "BoardBuilder::remove", "RawBoard::set", "RawBoard::remove", "RawBoard::get", "RawBoard::color_of", "RawBoard::piece_of_unchecked"],
   contract="place(pos,c,p): Ok iff pos empty, then sets and hash change by exactly that piece; refused => unchanged; remove(pos): removes the piece standing there and its key, or nothing; get == sets")
ob("C03.in_check", ["C03"], "chess-movegen", "kani_verif_c04::c03_in_check", kind="complete", flags="full", timeout=1800, mem_gb=6,
   functions=["Board::in_check"], contract="{cached checkers == spec, kings not adjacent} in_check() <=> the mover's king is attacked")
ob("C04.cover", "C04", "chess-movegen", "kani_verif_c04::c04_cover", kind="cover", flags="full", timeout=900, mem_gb=4, contract="vacuity guard")
ob("C04.negtwin", "C04", "chess-movegen", "kani_verif_c04::c04_negtwin", kind="negtwin", expect="refuted", flags="full", timeout=900, mem_gb=4, contract="negated twin: flipping the side to move keeps the hash - must be refuted")

# =========================================================================== C03 pin info (foreach-loop proof), state, in_check
_LK5 = ["chess_lookup::between", "chess_lookup::rook_rays", "chess_lookup::bishop_rays", "chess_lookup::knight_moves", "chess_lookup::pawn_attacks_moves"]
_STUB_NOTE = "stub_verified: " + ", ".join(_LK5) + " (contracts discharged by C09.*)"
ob("C03.pin_info.body", ["C03", "C06", "C07"], "chess-movegen", "kani_verif_c06::c03_pin_info_body", kind="complete", flags="full", timeout=1500, mem_gb=5, stubs=_LK5 + ["BitBoard::pop -> one-shot abstraction"],
   functions=["Board::update_pin_info", "Board::king_sq"],
   contract="{one king each} update_pin_info() with the one-shot iterator: the slider loop ranges over exactly pinners_spec; for an ARBITRARY pinner s: checkers = leaper checkers + {s} iff nothing between, pinned = the single blocker; no other field modified")
ob("C03.pin_lemma", ["C03", "C06"], "chess-movegen", "kani_verif_c06::c03_pin_lemma", kind="complete", flags="full", timeout=1500, mem_gb=4,
   functions=["(spec only) is_checker / is_pinned vs union of body contributions"],
   contract="spec-only lemma: is_checker(q) <=> q is a leaper checker or a pinner with nothing between; is_pinned(q) <=> q is the single blocker of some pinner")
ob("C03.pin_info.loop2", ["C03", "C06"], "chess-movegen", "kani_verif_c06::c03_pin_info_loop2", kind="bounded", bound="<= 2 enemy sliders aligned with the king (loop skeleton)", flags="full", timeout=2400, mem_gb=4, stubs=_LK5,
   functions=["Board::update_pin_info"], contract="real iterator, <= 2 pinners: checkers/pinned == from-scratch spec at every square")
ob("C03.state", ["C03"], "chess-movegen", "iter::kani_verif_c10::c03_state", kind="complete", flags="full", timeout=1500, mem_gb=6, stubs=["Board::legals -> arbitrary well-formed MoveGen (contracts C01/C10)"],
   functions=["Board::state", "MoveGen::is_empty", "Board::in_check"],
   contract="state() == CheckMate iff no legal move and in check; StaleMate iff no legal move and not in check, or half-move clock >= 100 (mate has priority); Check; Running — table over (|view(legals())| == 0, checkers non-empty, clock)")
PROPERTY_META["C03"] = dict(
    level="proof",
    explanation="in_check/state: contracts under the representation invariant; from-scratch update_pin_info and the incremental re-scan at the end of make-move (C02.cache.*, all move kinds incl. castling-rook, promotion, under-promotion, en-passant discovered checks are just values of mv) are proved equal to the independent ray-walking spec as foreach-loop proofs: loop range == spec pinner set and loop body for an ARBITRARY member (complete), spec-only union lemma (complete), real-iterator skeleton with <= 2 members (bounded, labelled), BitBoardIter contract (C18). 'Indistinguishable from the same position built from scratch' then follows: under the invariant all cached fields are functions of the position (meta-argument, DESIGN 4).",
    assumptions=["foreach-loop composition (body for arbitrary member + range + iterator contract => whole loop) is a meta-argument, not machine-checked; the real-loop skeleton is checked for <= 2 members only",
                 "observers (legals, Display, Debug, Hash) read only the Board fields (safe functions of &Board)",
                 "C02.cache.* obligations are decided by ./check C03 as well (listed below)"],
    level_note="proof for body/range/lemma obligations; loop skeletons bounded(2) and labelled; induction over histories is the usual establish/preserve meta-argument",
)

# =========================================================================== C02 make-move
_kinds = [("piece", "knight/bishop/rook/queen move or capture"), ("king", "king step or capture"), ("castle", "castling (either side, either colour)"), ("pawn", "pawn push, double step or capture"), ("ep", "en-passant capture"), ("promo", "promotion (with or without capture, all four pieces)")]
_MK = ["Board::move_unchecked_into", "Board::king_sq", "RawBoard::piece_of_unchecked", "RawBoard::piece_of", "CastleRights::remove_for_sq", "Board::enpassant_pos"]
_MKSTUBS = _LK5 + ["Board::xor -> contract stub (C04.xor)", "BitBoard::pop -> one-shot abstraction (slider re-scan loop)"]
for k, d in _kinds:
    ob("C02.place." + k, ["C02"], "chess-movegen", "kani_verif_c02::c02_place_" + k, kind="complete", flags="full", timeout=1800, mem_gb=5, stubs=_MKSTUBS, functions=_MK,
       contract="{one king each, <=16 per side, rights only with king+rook home, e.p. marker valid, no back-rank pawns, clocks < 65535, mv pseudo-legal of kind: %s} move_unchecked_into(mv, out) {eight sets, side to move, castling rights, e.p. marker, half-move clock, full-move number of out == apply(view(self), mv); self unchanged}" % d)
    ob("C04.hash." + k, ["C04"], "chess-movegen", "kani_verif_c02::c02_hash_" + k, kind="complete", flags="full", timeout=1800, mem_gb=5, stubs=_MKSTUBS, functions=_MK + ["Board::xor"],
       contract="incremental hash, delta form, kind %s: out.zobrist == self.zobrist ^ keys of exactly the (square, piece, colour) triples the rules change (mover off/on, captured piece, e.p. victim, promotion swap, castling rook)" % d)
    ob("C02.cache." + k, ["C03"], "chess-movegen", "kani_verif_c02::c02_cache_" + k, kind="complete", flags="full", timeout=1800, mem_gb=5, stubs=_MKSTUBS, functions=_MK,
       contract="incremental check/pin sets, kind %s, foreach-loop body: re-scan ranges over exactly the successor's pinner set; for an ARBITRARY member: out.checkers = leaper checkers of the successor + {s} iff nothing between, out.pinned = the single blocker (with C03.pin_lemma: == from-scratch spec of the successor)" % d)
ob("C02.cache.loop2", ["C03", "C02"], "chess-movegen", "kani_verif_c02::c02_cache_loop2", tier="thorough", kind="bounded", bound="successor has <= 2 sliders aligned with the enemy king (loop skeleton)", flags="full", timeout=10800, mem_gb=8, stubs=_LK5 + ["Board::xor -> contract stub (C04.xor)"], functions=_MK,
   contract="real iterator, every move kind: out.checkers/out.pinned == from-scratch spec of the successor at every square; successor position and hash delta as well")
ob("C02.valid_preserved", ["C02"], "chess-movegen", "kani_verif_c02::c02_valid_preserved", kind="complete", flags="func", timeout=2400, mem_gb=6,
   functions=["(spec only) valid(P) and legal(P, mv) => valid(apply(P, mv))"],
   contract="spec-only lemma for the induction over histories: a legal move from a valid position leads to a valid position (placement, king/piece counts, mover not left in check, rights consistent, e.p. marker consistent, no back-rank pawn)")
ob("C02.rights_table", ["C02", "C07"], "chess-movegen", "kani_verif_c02::c02_rights_table", kind="complete", flags="full", timeout=600, mem_gb=2, functions=["CastleRights::remove_for_sq", "CastleRights::to_index", "CastleRights::contains", "CastleRights::with"],
   contract="remove_for_sq(colour, sq) for all 16 x 2 x 64 inputs clears exactly the rights whose king or rook home square is sq for that colour; nibble stays < 16")
for n in ("move_new", "move_mut", "move_into"):
    ob("C02.checked." + n, ["C02"], "chess-movegen", "kani_verif_c02::c02_" + n, kind="complete", flags="full", timeout=1500, mem_gb=6, stubs=["Board::is_legal -> contract stub (C01: == legal)", "Board::move_unchecked_into -> contract stub (C02.place.*)"],
       functions=["Board::" + n, "Board::move_unchecked", "Board::move_unchecked_mut"],
       contract="%s accepts exactly the legal moves (every (from,to,promotion) triple); accepted => result == successor; refused => self / output bit-for-bit untouched; the unchecked mutator is only reached with a legal move" % n)
ob("C02.cover", "C02", "chess-movegen", "kani_verif_c02::c02_cover", kind="cover", flags="full", timeout=1500, mem_gb=5, contract="vacuity guard: castling by Black, e.p. by White, knight promotion with capture, double step, rights-changing piece move are all reachable under the preconditions")
PROPERTY_META["C02"] = dict(
    level="proof",
    explanation="Contract of the only mutator Board::move_unchecked_into, taken from the property statement (spec apply(): placement incl. rook hop / e.p. victim / promoted piece, side to move, rights by the home-square rule, e.p. marker iff double step, clocks) and discharged on the real body for ALL boards satisfying the precondition and ALL pseudo-legal moves, per move kind; rights table for all 2048 inputs; checked operations for every (from,to,promotion) triple against the callee contracts. The slider re-scan loop is a foreach-loop proof (body complete, skeleton bounded(2) in C02.cache.loop2).",
    assumptions=["callee contracts used at call sites: Board::xor (C04.xor), chess_lookup accessors (C09.*), is_legal == legal (C01.*)",
                 "foreach-loop composition for the re-scan loop (it writes only checkers/pinned) is a meta-argument",
                 "clock values below the 16-bit limit (the property's own restriction)"],
)
PROPERTY_META["C04"] = dict(
    level="proof",
    explanation="zobrist() composition and independence from clocks/cached sets; Eq/Hash coherence; Board::xor contract; builder place/remove deltas; standard() literal (ground); incremental hash in delta form for every move kind (C04.hash.*: out.zobrist == self.zobrist ^ keys of exactly the changed (square,piece,colour) triples), from which 'incremental == from scratch' follows by xor algebra under the invariant; all 794 keys pairwise distinct and non-zero (C04.keys, one query over all index pairs).",
    assumptions=["xor-fold order independence / 'delta form + invariant => from-scratch equality' is algebra on xor, stated as a lemma (not machine-checked)",
                 "FEN parser establishes the hash invariant: obligations C05.parse_tail / C05.constructors (bounded families)"],
)

# =========================================================================== C01 move generation
_PC = "iter::pieces::kani_verif_c01::"
_LKM = ["chess_lookup::between", "chess_lookup::line", "chess_lookup::knight_moves", "chess_lookup::rook_moves", "chess_lookup::bishop_moves"]
_INV = "{representation invariant: valid position (one king each, <=16, rights/e.p. consistent, side not to move not in check, no back-rank pawns), cached checkers/pinned == spec}"
for t, T in (("knight", "Knight"), ("bishop", "Bishop"), ("rook", "Rook"), ("queen", "Queen")):
    for st, n in (("nocheck", 0), ("check", 1)):
        ob("C01.%s.%s.body" % (t, st), ["C01"], "chess-movegen", _PC + "c01_%s_%s_body" % (t, st), kind="complete", flags="func", timeout=2400, mem_gb=6, part=n,
           stubs=_LKM + ["BitBoard::pop -> one-shot abstraction (piece loops)"], functions=["<%s as PieceType>::legals::<%s>" % (T, "IN_CHECK" if n else "NO_CHECK"), "%s::pseudo_legals" % T, "check_mask", "Board::king_sq"],
           contract=_INV + " with %d checker(s), any destination mask: for an ARBITRARY own %s picked by each of the two loops and EVERY destination d: the generated entries contain (src,d) exactly once iff legal(P,(src,d)) [make the move, test the king] and d in mask; no entry is empty, outside the mask or for a foreign square; at most one entry per loop body" % (n, t))
ob("C01.knight.skipped", ["C01"], "chess-movegen", _PC + "c01_knight_skipped", kind="complete", flags="func", timeout=2400, mem_gb=6, part=0, functions=["(loop range) Knight: CAN_MOVE_IF_PINNED = false"],
   contract=_INV + ": a pinned knight (never reached by the loops) has no legal move")
for t, h in (("bishop", "b"), ("rook", "r"), ("queen", "q")):
    ob("C01.%s.skipped" % t, ["C01"], "chess-movegen", _PC + "c01_slider_skipped_" + h, kind="complete", flags="func", timeout=2400, mem_gb=6, part=1, functions=["(loop range) PieceType::legals: pinned loop skipped when IS_IN_CHECK"],
       contract=_INV + " with 1 checker: a pinned %s (second loop skipped while in check) has no legal move" % t)
ob("C01.pawn.skipped", ["C01"], "chess-movegen", _PC + "c01_pawn_skipped", kind="complete", flags="func", timeout=2400, mem_gb=6, part=1, functions=["(loop range) Pawn::legals: pinned loop skipped when IS_IN_CHECK"],
   contract=_INV + " with 1 checker: a pinned pawn has no legal non-en-passant move ... (query over every destination)")
for st, n in (("nocheck", 0), ("check", 1)):
    ob("C01.pawn.%s.body" % st, ["C01"], "chess-movegen", _PC + "c01_pawn_%s_body" % st, kind="complete", flags="func", timeout=3000, mem_gb=8, part=n,
       stubs=["chess_lookup::between", "chess_lookup::line", "chess_lookup::pawn_moves", "chess_lookup::rook_moves", "chess_lookup::bishop_moves", "BitBoard::pop -> one-shot abstraction (three pawn loops incl. en passant)"],
       functions=["<Pawn as PieceType>::legals::<%s>" % ("IN_CHECK" if n else "NO_CHECK"), "Pawn::pseudo_legals", "check_mask"],
       contract=_INV + " with %d checker(s), any mask, every e.p. file or none: for an ARBITRARY pawn picked by each of the three loops (unpinned, pinned, en-passant capturers) and EVERY destination d and promotion choice: generated exactly once iff legal and masked (en passant decided by make-move: both pawns leave, king tested); promotion flag iff the pawn stands on its seventh rank" % n)
ob("C01.king_position", ["C01", "C06"], "chess-movegen", _PC + "c01_king_position", kind="complete", flags="full", timeout=2400, mem_gb=5, stubs=_LK5 + ["chess_lookup::king_moves"],
   functions=["Board::is_legal_king_position"], contract="{one king each, <= 16 per side} is_legal_king_position(dest) == dest is not attacked by the opponent once the mover's king is lifted off the board; all boards x all 64 squares (real 16-fold slider loop)")
for st in ("nocheck", "check"):
    ob("C01.king." + st, ["C01"], "chess-movegen", _PC + "c01_king_" + st, kind="complete", flags="func", timeout=2400, mem_gb=6, part=(0 if st == "nocheck" else 1), stubs=["chess_lookup::king_moves", "Board::is_legal_king_position -> contract stub (C01.king_position)"],
       functions=["King::king_legals", "King::pseudo_legals"],
       contract="{one king each, <=16, rights consistent, side not to move not in check, checkers non-empty <=> in check} king_legals, %s, all 16 rights values, any mask: for EVERY destination d: (king,d) generated iff legal(P,(king,d)) (and d in mask for ordinary steps); castling: right present, path empty, king not in check, transit and target squares not attacked; at most one entry, never empty" % st)
ob("C01.king.castle", ["C01"], "chess-movegen", _PC + "c01_king_castle", kind="complete", flags="func", timeout=2400, mem_gb=8, stubs=["chess_lookup::king_moves", "Board::is_legal_king_position -> contract stub weakened to the four consulted squares (C01.king_position)"],
   functions=["King::king_legals::<NO_CHECK> (castling part)"],
   contract="{one king each, <=16, rights consistent, kings not adjacent, not in check} both colours, all 16 rights values: castling move generated iff legal: right present, squares between king and rook empty, king square / transit square / destination not attacked")
ob("C01.dispatch", ["C01"], "chess-movegen", _PC + "c01_dispatch", kind="complete", flags="full", timeout=1800, mem_gb=6,
   stubs=["<T as PieceType>::pseudo_legals -> marker stubs (T = Pawn..Queen)", "check_mask::<C> -> marker stub", "King::king_legals::<C> -> marker stub", "BitBoard::pop -> one-shot abstraction"],
   functions=["Board::collect_moves"],
   contract="collect_moves(mask): 0 checkers: all six generators run with NO_CHECK; 1 checker: the five non-king generators and the king run with IN_CHECK; >= 2: only the king (IN_CHECK); each receives mask minus the mover's own squares. Observed through marker stubs one level below the generic trait methods (which Kani cannot stub), on boards with an unpinned piece of every kind")
ob("C01.dispatch.lemma", ["C01"], "chess-movegen", _PC + "c01_double_check_lemma", kind="complete", flags="func", timeout=2400, mem_gb=5, part=(1, 4),
   functions=["(spec only) legality in double check"], contract="spec-only lemma: with >= 2 checkers no move of a piece other than the king is legal")
ob("C01.check_mask", ["C01", "C07"], "chess-movegen", _PC + "c01_check_mask", kind="complete", flags="func", timeout=2400, mem_gb=6, stubs=["chess_lookup::between"],
   functions=["check_mask"], contract="check_mask::<true> == between(king, checker) + checker with exactly one checker (its assert_eq! holds); check_mask::<false> == everything")
ob("C01.is_legal", ["C01", "C02"], "chess-movegen", "iter::kani_verif_c10::c01_is_legal", kind="bounded", bound="move list of <= 2 entries x <= 3 destinations (the `any` loop)", flags="full", timeout=1500, mem_gb=6,
   stubs=["Board::legals -> small arbitrary MoveGen"], functions=["Board::is_legal"], contract="is_legal(mv) <=> mv is among the moves legals() yields")
for t, st in (("knight", "nocheck"), ("knight", "check"), ("bishop", "nocheck"), ("rook", "nocheck"), ("queen", "nocheck"), ("queen", "check")):
    ob("C01.%s.%s.loop2" % (t, st), ["C01"], "chess-movegen", _PC + "c01_%s_%s_loop2" % (t, st), kind="bounded", bound="mover has <= 2 pieces of the type (loop skeleton)", tier="thorough", flags="func", timeout=7200, mem_gb=8, stubs=_LKM,
       functions=["PieceType::legals (real BitBoardIter loops)"], contract=_INV + ": real iterator, <= 2 %ss: every (src,d) generated exactly once iff legal and masked" % t)
ob("C01.cover", "C01", "chess-movegen", _PC + "c01_cover", kind="cover", flags="func", timeout=2400, mem_gb=6,
   contract="vacuity guard: under the invariant there are positions with a legal move of a pinned rook, a legal en-passant capture, legal castling, and a pinned knight")
PROPERTY_META["C01"] = dict(
    level="proof",
    explanation="Each per-type generator function of the real code is verified against make-move-and-test-the-king legality (independent spec, validated on published perft counts) for ALL boards satisfying the representation invariant, both colours, any mask, as a foreach-loop proof: loop body for an ARBITRARY member (one-shot iterator; complete), loop ranges / skipped members have no legal move (complete), BitBoardIter contract (C18); king moves and castling against the attacked-square contract of is_legal_king_position; check_mask; is_legal against the iterator (bounded list). Dispatch in collect_moves (which generators run for 0 / 1 / >= 2 checkers, with which IS_IN_CHECK constant and mask) is machine-checked through marker stubs one level below the generic trait methods (C01.dispatch), plus the spec lemma 'in double check only king moves are legal' (C01.dispatch.lemma). The composition of loop bodies into whole loops is a meta-argument.",
    assumptions=["dispatch is observed indirectly (marker stubs for pseudo_legals / check_mask / king_legals) because Kani cannot stub generic functions in traits",
                 "foreach-loop composition is a meta-argument; real-iterator skeletons are checked in the thorough tier with <= 2 pieces (bounded)",
                 "chess_lookup accessors replaced by their contracts (C08.*, C09.*)",
                 "representation invariant is established/preserved by C06.*/C02.*/C03.* (induction over histories: meta-argument)"],
    level_note="proof per obligation listed as complete; dispatch glue and loop composition by stated argument; is_legal loop bounded",
)

# =========================================================================== C05 / C06 FEN
_FN = "fen::kani_verif_fen::"
ob("C06.parse_piece", ["C06", "C05"], "chess-movegen", "fen::kani_verif_fen_helpers::c06_parse_piece", kind="complete", flags="full", timeout=900, mem_gb=3, functions=["fen::parse_piece"],
   contract="ALL byte strings of length <= 3 (it inspects one byte): 12 letters -> (colour, piece), digits 1-8 -> run length, anything else -> None with the input untouched; consumes exactly one byte on success")
ob("C06.parse_number", ["C06", "C05"], "chess-movegen", "fen::kani_verif_fen_helpers::c06_parse_number", kind="complete", flags="full", timeout=900, mem_gb=3, functions=["fen::parse_number"],
   contract="ALL byte strings of length <= 6: value of the <= 4 leading digits, exactly those consumed, None iff no leading digit; no overflow")
ob("C06.parse_small", ["C06", "C05"], "chess-movegen", "fen::kani_verif_fen_helpers::c06_parse_small", kind="complete", flags="full", timeout=900, mem_gb=3, functions=["fen::parse_whitespace", "fen::parse_dash", "fen::parse_castle_rights"],
   contract="ALL byte strings of length <= 5: whitespace run consumed / error iff none; dash; castle letter: consume exactly what their spec says")
_GROUND = [("standard", "standard position"), ("kiwipete", "kiwipete, all rights, clocks 10/99"), ("ep_white", "e.p. square d6, White to move"), ("ep_black", "e.p. square d3, Black to move"),
           ("rights_kq", "rights Kq, clocks 100/9999, Black to move"), ("rights_qk", "rights Qk, clocks 9/10"), ("runs", "empty runs 1..7, every black piece kind, clocks 1234/567"), ("check", "side to move in check, pinned piece, right K")]
_GROUND += [("r%02d" % i, "castling subset %d" % i) for i in (0, 1, 2, 3, 4, 5, 7, 8, 10, 11, 12, 13, 14)]
_GROUND += [("bare_kings", "bare kings, rank 1 and rank 8 end with an empty run"), ("corners", "kings in the corners, empty run first / last")]
for _n, _d in _GROUND:
    ob("C05.ground." + _n, ["C05", "C06"] if _n in ("standard", "check", "ep_white") else ["C05"], "chess-movegen", _FN + "c05_ground_" + _n, kind="ground", flags="full", timeout=1500, mem_gb=3,
       functions=["fen::parse_fen", "<Board as Display>::fmt", "<CastleRights as Debug>::fmt", "Board::validate", "Board::update_pin_info"],
       contract="ground round trip (%s): parse_fen(text) == Ok(b); Display(b) == text byte for byte; the spec writer applied to view(b) == text (b denotes exactly the described position); hash field == from-scratch piece hash; cached sets == spec; position playable" % _d)
for _off, _what in ((17, "separator after the placement"), (18, "side to move"), (20, "castling field"), (22, "en-passant field"), (24, "half-move clock"), (26, "full-move number")):
    ob("C06.window.%02d" % _off, ["C06"], "chess-movegen", _FN + "c06_w_%02d" % _off, kind="bounded", bound="one arbitrary byte at offset %d (%s) of the 27-byte text 'k7/8/8/8/8/8/8/K7 w - - 0 1'" % (_off, _what), flags="full", timeout=1500, mem_gb=3,
       functions=["fen::parse_fen", "Board::validate"], contract="all 256 values of that byte: parse_fen returns (no panic / overflow / out-of-bounds); an accepted board passes validate()")
for _n, _d in (("empty", "empty string"), ("one_rank", "'8'"), ("after_rank", "text ends after a complete rank (4 of 8)"), ("seven_ranks", "seven ranks"), ("mid_rank", "text ends inside the last rank"),
               ("no_turn", "no side to move"), ("no_rights", "no castling field"), ("no_ep", "no e.p. field"), ("no_clocks", "no clocks"), ("one_clock", "only one clock"),
               ("long_rank", "digit 9"), ("rank_overflow", "rank with 9 files"), ("bad_letter", "letter x"), ("trailing", "trailing space"), ("ep_rank", "e.p. square on the wrong rank for the side to move"), ("five_digits", "five-digit clock")):
    ob("C06.reject." + _n, ["C06"], "chess-movegen", _FN + "c06_reject_" + _n, kind="ground", flags="full", timeout=1500, mem_gb=2, functions=["fen::parse_fen"],
       contract="ground totality case (%s): parse_fen returns an error, without panic / overflow / out-of-bounds" % _d)
ob("C05.constructors", ["C05", "C04"], "chess-movegen", _FN + "c05_constructors", kind="ground", flags="full", timeout=1500, mem_gb=4, functions=["Board::standard", "Board::builder", "BoardBuilder::place", "BoardBuilder::castle_rights", "BoardBuilder::build", "fen::parse_fen"],
   contract="standard(), the builder fed with the standard placement, and parse_fen(standard FEN) are field-for-field identical (position, hash, cached sets)")
ob("C06.fen_cover", ["C06", "C05"], "chess-movegen", _FN + "c06_fen_cover", kind="cover", flags="full", timeout=1500, mem_gb=5, contract="vacuity guard: accepted text with Black to move and an invalid-turn error are both reachable")
PROPERTY_META["C06"] = dict(
    level="model_checking",
    explanation="Validation half: PROOF — Board::validate() on a fully symbolic board: Ok => each of the five playability clauses (one assertion per clause), playable => Ok (no over-rejection), error classification; has_kings; BoardBuilder::build; update_pin_info (foreach-loop proof); is_legal_king_position (used by the 'side not to move not in check' clause) against the attacked-square spec. Parser totality half: BOUNDED — the five private helper parsers on ALL short byte strings (complete for the bytes they inspect); whole parse_fen only on ground strings: 16 malformed / truncated texts that must be rejected without a panic (every place where the text can stop, over-long ranks, bad letters, five-digit clocks), every value of one byte at six fixed tail offsets of a 27-byte text, and three accepted texts. Fully symbolic byte strings do not get through CBMC's symbolic execution of parse_fen even at length 3 (measured), so arbitrary garbage — in particular inside the placement field — is NOT covered.",
    assumptions=["parser totality is decided only on the registered ground strings and single-byte windows; the placement loop's panic sites are File::from_u8(file).unwrap() (file <= 7 at loop head by the 0..=7 / 8 / 9.. match) and ranks.next().unwrap() (once) — argued, not proved for arbitrary input",
                 "untrusted entry points (chess-wasm new_game_from_fen, CLI FromStr) only call parse_fen(s.as_bytes())",
                 "validate()'s attacked-square test is used through its contract (C01.king_position)"],
    level_note="validate / build / pin-info: proof; parse_fen totality: ground cases + single-byte windows + helper parsers (bounded, labelled per obligation)",
)
PROPERTY_META["C05"] = dict(
    level="model_checking",
    explanation="GROUND round trips + field-level inverses (the symbolic per-rank / per-field splits planned in DESIGN section 5 do not get through CBMC, see DESIGN 11.4): for 23 canonical FENs chosen to hit every writer/parser branch (every one of the 16 castling subsets, e.p. square for either side to move, clocks of 1-4 digits, empty runs 1-8 at the start / middle / end of a rank incl. rank 1 and rank 8, every piece letter, a position in check with a pin): parse_fen(text) == Ok(b), Display(b) == text byte for byte, the independent spec writer applied to view(b) == text (b denotes exactly the described position), hash field == from-scratch hash, cached sets == spec, position playable. The private field parsers are exact inverses of the field writers on ALL short byte strings (complete). standard() / builder / parser agree field for field (ground). A change that only shows on a text shape outside this family is NOT detected (seeds X3-1 / X3-2 showed this before their shapes were added).",
    assumptions=["whole-string behaviour is decided only on the ground family; composition of ranks and fields beyond it is by inspection",
                 "clock values: the ground family covers 1-4 digit clocks; the helper parse_number is complete for all inputs"],
    level_note="ground obligations (CBMC evaluates the real parser and writer on fixed texts) + complete field-level inverses; NOT a proof over all boards",
)

# =========================================================================== Verus spec-level lemmas (DESIGN 2.2)
ob("LEMMA.verus", ["C14", "C04", "C07"], "__verus__", "verus/lemmas.rs", file="verus/lemmas.rs", kind="complete", timeout=600, mem_gb=1,
   functions=["(spec only) (rank,key) order; xor fold; move-list counting"], packaging="Verus lemma file (spec functions only, no executable code)",
   contract="C14: the (rank,key) lexicographic order is a strict total order; C04: xor is commutative/associative/self-inverse, a delta update of a fold equals the fold of the updated key multiset, fold is order-independent; C07: (pawns + 2 e.p. entries) + knights + bishops + rooks + queens + king <= 18 when the side has <= 16 pieces")

# =========================================================================== C07 safety
ob("C07.rights_range", ["C07"], "chess-movegen", "kani_verif_c07::c07_rights_range", kind="complete", flags="safety", timeout=600, mem_gb=2,
   functions=["CastleRights::with", "CastleRights::without", "CastleRights::add", "CastleRights::remove", "CastleRights::remove_for_sq", "CastleRights::to_index", "CastleRights::contains_color"],
   contract="the castling nibble stays < 16 under every public operation (all 16 values x all arguments), so to_index() never reaches unreachable_unchecked; CastleRights::not() (which breaks it) is used only in private constants")
ob("C07.king_sq", ["C07"], "chess-movegen", "kani_verif_c07::c07_king_sq", kind="complete", flags="safety", timeout=600, mem_gb=3,
   functions=["Board::king_sq", "BitBoard::pop_unchecked"], contract="{exactly one king of that colour} king_sq(colour) == its square; NonZeroU64::new_unchecked precondition holds")
ob("C07.ep_capturers", ["C07"], "chess-movegen", "kani_verif_c07::c07_ep_capturers", kind="complete", flags="safety", timeout=600, mem_gb=2,
   functions=["chess_lookup::ADJACENT_FILES"], contract="(ADJACENT_FILES[f] & rank) has at most two squares: at most two en-passant entries (capacity argument: 16 + 2 <= 18)")
ob("C07.make_move", ["C07"], "chess-movegen", "kani_verif_c07::c07_make_move_safety", kind="complete", flags="safety", timeout=2400, mem_gb=6, stubs=_MKSTUBS,
   functions=_MK, contract="safety only, all default checks on: move_unchecked_into on any ACCEPTED position (back-rank pawns allowed) with any pseudo-legal move of any kind: no unchecked-operation precondition violated, no arithmetic overflow for ANY 16-bit clock values, no out-of-range index")
ob("C07.cover", ["C07"], "chess-movegen", "kani_verif_c07::c07_cover", kind="cover", flags="safety", timeout=1200, mem_gb=4, contract="vacuity guard: accepted positions with a pawn on the last rank and a pseudo-legal move exist")
PROPERTY_META["C07"] = dict(
    level="proof",
    explanation="Every unsafe / panicking site named in the anchors is an automatically generated obligation (Kani default checks ON: pointer validity, overflow, unwrap/index panics, std unsafe-precondition checks, unreachable_unchecked reachability) of a harness whose functional contract is listed under another property: BitBoard::pop_unchecked (C18), enum-iterator unwrap_unchecked (C19), slider table index (C08, thorough tier here), book reads (C17), MoveGen::next pop_unchecked / set_mask raw-pointer compaction (C10), check_mask assert (C01), make-move piece_of_unchecked / king_sq (here, under the weaker 'accepted position' precondition), castling nibble range, e.p. capturer count; the 18-slot capacity follows from the Verus counting lemma plus 'at most one push per loop body'. NOT covered: anything in chess-engine (search counters u8/u16: see DESIGN section 9 F7/F8 — Kani cannot compile functions containing tracing macros; std HashMap) and the release-only get_unchecked reads (proved in range under the debug-profile body).",
    assumptions=["engine code (ThreeFold u8 counter, depth u16 counter) is outside this check: tool limit (tracing macro ICE, hashbrown); recorded in DESIGN.md section 9, not as a checked finding",
                 "capacity 18: counting argument over per-type contracts (Verus lemma + at most one push per loop body + <= 2 e.p. capturers), not a single machine-checked obligation",
                 "parser totality is bounded (C06)",
                 "release profile replaces checked table reads by get_unchecked at indices proved in range"],
    level_note="proof per listed site under Kani's debug-profile semantics; engine/search sites not covered (tool limit)",
)
ob("C07.capacity", ["C07"], "chess-movegen", "iter::kani_verif_c10::c07_capacity", kind="ground", flags="safety", timeout=600, mem_gb=2,
   functions=["iter::MoveList (ArrayVec capacity)", "PROMOTION_PIECES"], contract="MoveList capacity >= 18 = 16 pieces + 2 en-passant capturers (the bound of the Verus counting lemma); four promotion pieces")
for _o in OBLIGATIONS:
    if _o["name"] in ("C09.pawn_quiets", "C09.pawn_moves", "C09.pawn_attacks", "C09.pawn_attacks_moves", "C09.knight", "C09.king", "C09.between", "C09.line") and "C07" not in _o["props"]:
        _o["props"].append("C07")
for _o in OBLIGATIONS:
    if _o["name"].startswith("C08.") and "C07" in _o["props"]:
        _o.setdefault("prop_tiers", {})["C07"] = "thorough"

# properties whose checks are still being brought up are not claimed in MANIFEST.json until they pass on the unchanged tree
for _p in ():
    PROPERTY_META[_p]["claim"] = False

# C01 quick-tier partition into four slices (each body obligation costs 8-12 min and 5-15 GB)
_C01_PART = {"knight.nocheck.body": 0, "bishop.check.body": 0, "pawn.skipped": 0, "king.nocheck": 0, "king.castle": 2,
             "bishop.nocheck.body": 1, "rook.check.body": 1, "knight.skipped": 1, "king.check": 1,
             "rook.nocheck.body": 2, "queen.check.body": 2, "pawn.nocheck.body": 2, "bishop.skipped": 2,
             "queen.nocheck.body": 3, "knight.check.body": 3, "pawn.check.body": 3, "rook.skipped": 0, "queen.skipped": 1}
for _o in OBLIGATIONS:
    if _o["name"].startswith("C01.") and _o["name"][4:] in _C01_PART:
        _o["part"] = (_C01_PART[_o["name"][4:]], 4)
    elif _o["name"].startswith("C01.") and "part" in _o and not _o["name"].startswith("C01.dispatch"):
        del _o["part"]

# measured memory of the C01 obligations after the query-stub restructuring (GB), for job scheduling
for _o in OBLIGATIONS:
    n = _o["name"]
    if not n.startswith("C01.") or _o.get("tier") == "thorough":
        continue
    if n.endswith(".body"):
        _o["mem_gb"] = 6 if "pawn" in n else 5
    elif n.endswith(".skipped") or n in ("C01.dispatch.lemma", "C01.check_mask", "C01.cover"):
        _o["mem_gb"] = 3
    elif n.startswith("C01.king.") or n == "C01.is_legal":
        _o["mem_gb"] = 4

# =========================================================================== quick-tier budget
# `vp check` stops a quick command after 900 s (and its sandbox can be ~2x slower than this one): every quick check
# is budgeted to <= ~350 s here. Obligations above ~350 s of solver time run in the thorough tier only; families of
# similar obligations are sliced by VERIF_SEED (every obligation is in exactly one slice; thorough runs all).
def _thorough(*names):
    for _o in OBLIGATIONS:
        if _o["name"] in names:
            _o["tier"] = "thorough"
            _o.pop("part", None)
def _slice(mapping, n):
    for _o in OBLIGATIONS:
        if _o["name"] in mapping:
            _o["part"] = (mapping[_o["name"]], n)
def _untag(prop, *names):
    for _o in OBLIGATIONS:
        if _o["name"] in names and prop in _o["props"] and len(_o["props"]) > 1:
            _o["props"].remove(prop)

# C01: heavy bodies, skipped-member lemmas, king_position, is_legal, dispatch lemma -> thorough
_thorough("C01.rook.nocheck.body", "C01.rook.check.body", "C01.queen.nocheck.body", "C01.queen.check.body", "C01.knight.check.body",
          "C01.pawn.nocheck.body", "C01.pawn.check.body", "C01.knight.skipped", "C01.bishop.skipped", "C01.rook.skipped", "C01.queen.skipped",
          "C01.pawn.skipped", "C01.king_position", "C01.is_legal", "C01.dispatch.lemma")
for _o in OBLIGATIONS:
    if _o["name"].startswith("C01.") and _o.get("tier", "quick") == "quick":
        _o.pop("part", None)
_slice({"C01.bishop.nocheck.body": 0, "C01.king.nocheck": 1, "C01.bishop.check.body": 2}, 3)
# C02
_thorough("C02.valid_preserved")
_untag("C02", "C01.is_legal")
# C03: one incremental-cache kind per slice; build is decided under C06
_slice({"C02.cache.piece": 0, "C02.cache.king": 1, "C02.cache.castle": 2, "C02.cache.pawn": 3, "C02.cache.ep": 4, "C02.cache.promo": 5}, 6)
_untag("C03", "C06.build")
# C04: one incremental-hash kind per slice
_slice({"C04.hash.piece": 0, "C04.hash.king": 1, "C04.hash.castle": 2, "C04.hash.pawn": 3, "C04.hash.ep": 4, "C04.hash.promo": 5}, 6)
# C05: castling-subset ground family in three slices
_slice(dict(("C05.ground.r%02d" % i, k % 3) for k, i in enumerate((0, 1, 2, 3, 4, 5, 7, 8, 10, 11, 12, 13, 14))), 3)
# C06: build -> thorough; tail windows in three slices
_thorough("C06.build")
_slice({"C06.window.17": 0, "C06.window.18": 1, "C06.window.20": 2, "C06.window.22": 0, "C06.window.24": 1, "C06.window.26": 2}, 3)
# C07: keep the site-specific obligations and the cheap shared ones
for _o in OBLIGATIONS:
    if "C07" in _o["props"] and _o["name"] in ("C10.len.cap3", "C10.set_mask.cap6", "C01.check_mask", "C19.iter.file", "C19.iter.rank", "C09.between", "C09.line"):
        _o.setdefault("prop_tiers", {})["C07"] = "thorough"
# C08: one square group per slider per slice (thorough: all groups + the single-query forms)
_slice(dict([("C08.rook.g%d" % i, i) for i in range(4)] + [("C08.bishop.g%d" % i, i) for i in range(4)]), 4)
# C10: the two removal operations and clone in three slices
_slice({"C10.remove.cap6": 0, "C10.remove_move.cap6": 1, "C10.clone.cap6": 2}, 3)

# C08: the chess-lookup crate costs ~5 min of fixed compile / goto processing for the 4 MB tables; drop the per-assertion
# reachability SAT calls here (the cover and negated-twin guards stay)
for _o in OBLIGATIONS:
    if _o["name"].startswith("C08.") and _o.get("flags") == "safety":
        _o["flags"] = "full"
_thorough("C08.cover", "C08.negtwin")
_untag("C03", "C03.pin_info.loop2")
_slice({"C02.place.piece": 0, "C02.place.king": 1, "C02.place.castle": 0, "C02.place.pawn": 1, "C02.place.ep": 0, "C02.place.promo": 1}, 2)
_slice({"C02.checked.move_new": 0, "C02.checked.move_mut": 1, "C02.checked.move_into": 1}, 2)
_thorough("C10.remove_move.cap6")
for _o in list(OBLIGATIONS):
    if _o["name"] == "C10.remove_move.cap6":
        d = dict(_o)
        d.update(name="C10.remove_move.cap3", harness="iter::kani_verif_c10::cap3::c10_remove_move", tier="quick", part=(1, 3), timeout=1800,
                 bound="iterator with <= 3 entries (all 64-bit destination sets, masks, indices)", mem_gb=4)
        d.pop("prop_tiers", None)
        OBLIGATIONS.append(d)
