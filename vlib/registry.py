"""Registry: where contracts and harness modules are woven in, and the obligations per property."""
import os, subprocess, hashlib

TRUSTED_BASE = [
    "rustc front end of Kani's pinned nightly; Kani 0.68.0 MIR->GOTO translation and its models of core/std intrinsics",
    "CBMC 6.11.0 symbolic execution + CaDiCaL SAT",
    "weaving (vlib/runner.py): attribute/module insertion into a copy of /repo's working tree; rewrites listed in DESIGN 3.1",
]
GLOBAL_ASSUMPTIONS = [
    "Kani verifies the code as compiled with debug_assertions and overflow-checks ON; release-profile differences are listed in DESIGN section 7",
    "cargo kani ignores /repo/.cargo/config.toml rustflags (-Ctarget-cpu=native): cfg(target_feature=\"bmi2\") bodies are outside the verified text",
]

CONTRACTS = []   # dict(file, anchor, [within], attrs=[...])
REWRITES = []    # dict(file, pattern, repl, min)
HOSTS = []       # dict(crate, file, mod, src, [pub])
EXTRA_WEAVE = []
OBLIGATIONS = []
PROPERTY_META = {}


def host(crate, file, mod, src, pub=False):
    HOSTS.append(dict(crate=crate, file=file, mod=mod, src=src, pub=pub))


def ob(name, props, crate, harness, **kw):
    if isinstance(props, str):
        props = [props]
    d = dict(name=name, props=props, crate=crate, harness=harness)
    d.update(kw)
    OBLIGATIONS.append(d)
    return d


def pre_check(prop, here):
    """Spec self-check gate (DESIGN 3.2): properties whose oracle is the rules-of-chess spec require the native
    perft self-check of the spec to have passed for the current spec sources."""
    if prop not in SPEC_PROPS:
        return
    from vlib.runner import Undecided
    stamp = os.path.join(here, ".cache", "spec_ok")
    h = spec_hash(here)
    if os.path.exists(stamp) and open(stamp).read().strip() == h:
        return
    r = subprocess.run([os.path.join(here, "spec", "selfcheck.sh")], cwd=here)
    if r.returncode != 0:
        raise Undecided("spec self-check (published perft numbers) failed")


def spec_hash(here):
    m = hashlib.sha1()
    d = os.path.join(here, "spec")
    for f in sorted(os.listdir(d)):
        if f.endswith(".rs"):
            m.update(open(os.path.join(d, f), "rb").read())
    return m.hexdigest()


SPEC_PROPS = set()

# =========================================================================== C14
host("chess-engine", "chess-engine/src/lib.rs", "kani_verif_c14", "harness/chess-engine/c14.rs")
_f14 = ["<chess_engine::Score as Ord>::cmp", "<Score as PartialOrd>::partial_cmp", "<Score as PartialEq>::eq (derived)",
        "Score::kind", "<ScoreKind as Ord>::cmp (derived)", "Ord::max / Ord::min on Score"]
ob("C14.cmp", "C14", "chess-engine", "kani_verif_c14::c14_cmp", kind="complete", flags="safety", timeout=300,
   functions=_f14[:1] + _f14[3:5],
   contract="{true} a.cmp(&b) {r == lexicographic (rank, key) order; rank Min<BlackMateIn<Raw<WhiteMateIn<Max; key = x | x | -x} for all pairs (5 tags x u16/i32 payloads)")
ob("C14.partial_eq_ord", "C14", "chess-engine", "kani_verif_c14::c14_partial_eq_ord", kind="complete", flags="safety", timeout=300,
   functions=_f14[:3],
   contract="partial_cmp == Some(cmp); (a==b) <=> cmp==Equal <=> same variant and payload; <,<=,>,>= agree with cmp; all pairs")
ob("C14.laws", "C14", "chess-engine", "kani_verif_c14::c14_laws", kind="complete", flags="safety", timeout=300,
   functions=_f14[:1],
   contract="reflexive-equal, antisymmetric, transitive, total on all triples; sentinels extreme; every white mate > every numeric > every black mate; quicker white mate greater; slower black mate greater; numeric by value")
ob("C14.max_min", "C14", "chess-engine", "kani_verif_c14::c14_max_min", kind="complete", flags="safety", timeout=300,
   functions=_f14[5:],
   contract="a.max(b) / a.min(b) is one of the arguments and is the spec upper / lower bound")
ob("C14.cover", "C14", "chess-engine", "kani_verif_c14::c14_cover", kind="cover", flags="safety", timeout=300,
   contract="vacuity guard: all variant classes reachable through the generators")
ob("C14.negtwin", "C14", "chess-engine", "kani_verif_c14::c14_negtwin", kind="negtwin", expect="refuted", flags="safety", timeout=300,
   contract="negated twin of C14.cmp: must be refuted")
PROPERTY_META["C14"] = dict(
    level="proof",
    explanation="Harness-stated contracts on the real Ord/PartialOrd/PartialEq impls of chess_engine::Score (the derived Ord of ScoreKind is compiled for real), full symbolic domain, loop-free: complete proof for all pairs/triples.",
    assumptions=["spec order (rank,key) written from the property statement is the definition of 'game-theoretic preference' used here"],
)

# =========================================================================== C16
host("chess-api", "chess-api/src/lib.rs", "kani_verif_c16", "harness/chess-api/c16.rs")
_f16 = ["From<ChessMove> for StableChessMove", "From<StableChessMove> for ChessMove", "From<ChessMove> for StableOptionalChessMove",
        "From<Option<ChessMove>> for StableOptionalChessMove", "From<StableOptionalChessMove> for Option<ChessMove>",
        "EvaluatedMove::new", "EvaluatedMove::chess_move", "EvaluatedMove::score"]
ob("C16.move", "C16", "chess-api", "kani_verif_c16::c16_move", kind="complete", flags="safety", timeout=300, functions=_f16[:2],
   contract="for all 64x64x5 moves m: ChessMove::from(StableChessMove::from(m)) == m")
ob("C16.opt_move", "C16", "chess-api", "kani_verif_c16::c16_opt_move", kind="complete", flags="safety", timeout=300, functions=_f16[2:7],
   contract="for all m, s: Some(m) -> Stable -> Some(m); None -> None; EvaluatedMove::new(x, s).chess_move() == x")
ob("C16.score", "C16", "chess-api", "kani_verif_c16::c16_score", kind="complete", flags="safety", timeout=300, functions=[_f16[5], _f16[7]],
   contract="for all scores s (5 variants, full u16/i32 payloads) and optional moves: EvaluatedMove::new(mv, s).score() == s")
ob("C16.cover", "C16", "chess-api", "kani_verif_c16::c16_cover", kind="cover", flags="safety", timeout=300, contract="vacuity guard")
ob("C16.negtwin", "C16", "chess-api", "kani_verif_c16::c16_negtwin", kind="negtwin", expect="refuted", flags="safety", timeout=300,
   contract="negated twin of C16.move: must be refuted")
PROPERTY_META["C16"] = dict(
    level="proof",
    explanation="Harness-stated contracts on the real conversion impls of chess-api (abi_stable derives compiled for real), full symbolic domain of moves, optional moves and scores, loop-free: complete proof, strictly stronger than the sampled numeric scores the property mentions.",
    assumptions=["the abi_stable plugin loading path and NonNull::<F>::dangling().read() in ChessApi::new are outside this property and unverified"],
)

# =========================================================================== C20
host("tracing-enabled", "tracing-enabled/src/lib.rs", "kani_verif_c20", "harness/tracing-enabled/c20.rs")
_f20 = ["tracing_enabled::is_enabled", "local_enable", "local_disable", "local_toggle", "enable", "disable", "toggle", "local_take", "restore"]
ob("C20.is_enabled", "C20", "tracing-enabled", "kani_verif_c20::c20_is_enabled", kind="complete", flags="safety", timeout=300, functions=_f20[:1],
   contract="is_enabled() == match L {Global => G, Enabled => true, Disabled => false}; L' == L, G' == G; all 3x2 states")
ob("C20.local_ops", "C20", "tracing-enabled", "kani_verif_c20::c20_local_ops", kind="complete", flags="safety", timeout=300, functions=_f20[1:4],
   contract="local_enable/local_disable/local_toggle: L' = Enabled/Disabled/toggled(L) (Global stays Global); G' == G")
ob("C20.global_ops", "C20", "tracing-enabled", "kani_verif_c20::c20_global_ops", kind="complete", flags="safety", timeout=300, functions=_f20[4:7],
   contract="enable/disable: L' = Enabled/Disabled and G' = true/false; toggle: L' = toggled(L), G' = !G")
ob("C20.take_restore", "C20", "tracing-enabled", "kani_verif_c20::c20_take_restore", kind="complete", flags="safety", timeout=300, functions=_f20[7:],
   contract="local_take: returns L, L' = Global, G' == G; restore(s): L' = s, G' == G; restore(local_take()) after any one intervening operation returns L")
ob("C20.other_thread", "C20", "tracing-enabled", "kani_verif_c20::c20_other_thread_effects", kind="complete", flags="safety", timeout=300, functions=_f20[:1],
   contract="after any effect another thread's operations can have (arbitrary G, by their frames), L_A unchanged and is_enabled() == L_A if set else latest G")
ob("C20.cover", "C20", "tracing-enabled", "kani_verif_c20::c20_cover", kind="cover", flags="safety", timeout=300, contract="vacuity guard")
ob("C20.negtwin", "C20", "tracing-enabled", "kani_verif_c20::c20_negtwin", kind="negtwin", expect="refuted", flags="safety", timeout=300,
   contract="negated twin of C20.is_enabled: must be refuted")
PROPERTY_META["C20"] = dict(
    level="proof",
    explanation="Sequential contracts (postcondition + frame over both state components) on all nine real functions, all 3x2 states x all operations, loop-free: complete. The interleaving statement is the lemma 'each operation touches L_own and performs at most one access to the single atomic G' + Rust's thread_local! guarantee that L_A and L_B are distinct objects; Kani has no threads, so real scheduling and Release/Acquire ordering are NOT explored.",
    assumptions=["thread_local! gives each thread its own LOCAL_ENABLED (language guarantee, trusted)",
                 "operation-granularity interleavings are complete because each operation accesses the single atomic at most once (checked by reading the 9 function bodies; enable/disable/toggle do a local op then one atomic op)",
                 "memory ordering (Release/Acquire) effects are outside Kani's sequential model"],
    level_note="proof of the sequential contracts and frames; thread isolation follows by a stated lemma resting on thread_local! semantics (not machine-checked); no real concurrency explored",
)
