"""Registry: where contracts and harness modules are woven in, and the obligations per property."""
import os, subprocess, hashlib

TRUSTED_BASE = [
    "rustc front end of Kani's pinned nightly; Kani 0.68.0 MIR->GOTO translation and its models of core/std intrinsics",
    "CBMC 6.11.0 symbolic execution + CaDiCaL SAT",
    "weaving (vlib/runner.py): attribute/module insertion into a copy of /repo's working tree; rewrites listed in DESIGN 3.1",
]
GLOBAL_ASSUMPTIONS = [
    "Kani verifies the code as compiled with debug_assertions and overflow-checks ON; release-profile differences are listed in DESIGN section 7",
    "cargo kani ignores /repo/.cargo/config.toml rustflags (-Ctarget-cpu=native): cfg(target_feature=\"bmi2\") bodies are outside the verified text",
]

CONTRACTS = []   # dict(file, anchor, [within], attrs=[...])
REWRITES = []    # dict(file, pattern, repl, min)
HOSTS = []       # dict(crate, file, mod, src, [pub])
EXTRA_WEAVE = []
OBLIGATIONS = []
PROPERTY_META = {}


def host(crate, file, mod, src, pub=False):
    HOSTS.append(dict(crate=crate, file=file, mod=mod, src=src, pub=pub))


def ob(name, props, crate, harness, **kw):
    if isinstance(props, str):
        props = [props]
    d = dict(name=name, props=props, crate=crate, harness=harness)
    d.update(kw)
    OBLIGATIONS.append(d)
    return d


def pre_check(prop, here):
    """Spec self-check gate (DESIGN 3.2): properties whose oracle is the rules-of-chess spec require the native
    perft self-check of the spec to have passed for the current spec sources."""
    if prop not in SPEC_PROPS:
        return
    from vlib.runner import Undecided
    stamp = os.path.join(here, ".cache", "spec_ok")
    h = spec_hash(here)
    if os.path.exists(stamp) and open(stamp).read().strip() == h:
        return
    r = subprocess.run([os.path.join(here, "spec", "selfcheck.sh")], cwd=here)
    if r.returncode != 0:
        raise Undecided("spec self-check (published perft numbers) failed")


def spec_hash(here):
    m = hashlib.sha1()
    d = os.path.join(here, "spec")
    for f in sorted(os.listdir(d)):
        if f.endswith(".rs"):
            m.update(open(os.path.join(d, f), "rb").read())
    return m.hexdigest()


SPEC_PROPS = set()

# =========================================================================== C14
host("chess-engine", "chess-engine/src/lib.rs", "kani_verif_c14", "harness/chess-engine/c14.rs")
_f14 = ["<chess_engine::Score as Ord>::cmp", "<Score as PartialOrd>::partial_cmp", "<Score as PartialEq>::eq (derived)",
        "Score::kind", "<ScoreKind as Ord>::cmp (derived)", "Ord::max / Ord::min on Score"]
ob("C14.cmp", "C14", "chess-engine", "kani_verif_c14::c14_cmp", kind="complete", flags="safety", timeout=300,
   functions=_f14[:1] + _f14[3:5],
   contract="{true} a.cmp(&b) {r == lexicographic (rank, key) order; rank Min<BlackMateIn<Raw<WhiteMateIn<Max; key = x | x | -x} for all pairs (5 tags x u16/i32 payloads)")
ob("C14.partial_eq_ord", "C14", "chess-engine", "kani_verif_c14::c14_partial_eq_ord", kind="complete", flags="safety", timeout=300,
   functions=_f14[:3],
   contract="partial_cmp == Some(cmp); (a==b) <=> cmp==Equal <=> same variant and payload; <,<=,>,>= agree with cmp; all pairs")
ob("C14.laws", "C14", "chess-engine", "kani_verif_c14::c14_laws", kind="complete", flags="safety", timeout=300,
   functions=_f14[:1],
   contract="reflexive-equal, antisymmetric, transitive, total on all triples; sentinels extreme; every white mate > every numeric > every black mate; quicker white mate greater; slower black mate greater; numeric by value")
ob("C14.max_min", "C14", "chess-engine", "kani_verif_c14::c14_max_min", kind="complete", flags="safety", timeout=300,
   functions=_f14[5:],
   contract="a.max(b) / a.min(b) is one of the arguments and is the spec upper / lower bound")
ob("C14.cover", "C14", "chess-engine", "kani_verif_c14::c14_cover", kind="cover", flags="safety", timeout=300,
   contract="vacuity guard: all variant classes reachable through the generators")
ob("C14.negtwin", "C14", "chess-engine", "kani_verif_c14::c14_negtwin", kind="negtwin", expect="refuted", flags="safety", timeout=300,
   contract="negated twin of C14.cmp: must be refuted")
PROPERTY_META["C14"] = dict(
    level="proof",
    explanation="Harness-stated contracts on the real Ord/PartialOrd/PartialEq impls of chess_engine::Score (the derived Ord of ScoreKind is compiled for real), full symbolic domain, loop-free: complete proof for all pairs/triples.",
    assumptions=["spec order (rank,key) written from the property statement is the definition of 'game-theoretic preference' used here"],
)
