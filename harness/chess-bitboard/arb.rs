//! kani::Arbitrary for the value types of chess-bitboard (the orphan rule forces these into the
//! defining crate). Each generator covers the whole type: every valid discriminant / all 2^64 boards.
use crate::{BitBoard, Color, File, Piece, Pos, PromotionPiece, Rank, Side};

impl kani::Arbitrary for Pos {
    fn any() -> Self {
        let x: u8 = kani::any();
        kani::assume(x < 64);
        // repr(u8) enum with discriminants 0..=63
        unsafe { core::mem::transmute::<u8, Pos>(x) }
    }
}
impl kani::Arbitrary for File {
    fn any() -> Self {
        let x: u8 = kani::any();
        kani::assume(x < 8);
        unsafe { core::mem::transmute::<u8, File>(x) }
    }
}
impl kani::Arbitrary for Rank {
    fn any() -> Self {
        let x: u8 = kani::any();
        kani::assume(x < 8);
        unsafe { core::mem::transmute::<u8, Rank>(x) }
    }
}
impl kani::Arbitrary for Color {
    fn any() -> Self {
        if kani::any() {
            Color::White
        } else {
            Color::Black
        }
    }
}
impl kani::Arbitrary for Side {
    fn any() -> Self {
        if kani::any() {
            Side::King
        } else {
            Side::Queen
        }
    }
}
impl kani::Arbitrary for Piece {
    fn any() -> Self {
        let x: u8 = kani::any();
        kani::assume(x < 6);
        unsafe { core::mem::transmute::<u8, Piece>(x) }
    }
}
impl kani::Arbitrary for PromotionPiece {
    fn any() -> Self {
        let x: u8 = kani::any();
        kani::assume(x >= 1 && x <= 4);
        unsafe { core::mem::transmute::<u8, PromotionPiece>(x) }
    }
}
impl kani::Arbitrary for BitBoard {
    fn any() -> Self {
        BitBoard::from_u64(kani::any())
    }
}
