//! C19 — square / file / rank / piece text forms and index conversions round-trip; parsers accept exactly
//! the intended spellings; enum iterators behave like slice iterators from both ends.
//! Hosted inside `pos` (private iterator fields). Complete over the finite domains; byte-string
//! parsers over ALL slices up to the stated length.
#[cfg(test)]
extern crate std;
#[cfg(test)]
use std::{vec, vec::Vec};

use super::*;
use crate::{Color, Piece, PromotionPiece, Side};

fn any_slice<const N: usize>(buf: &[u8; N]) -> &[u8] {
    let n: usize = kani::any();
    kani::assume(n <= N);
    &buf[..n]
}

#[kani::proof]
fn c19_pos_index() {
    let p: Pos = kani::any();
    let x: u8 = kani::any();
    let f: File = kani::any();
    let r: Rank = kani::any();
    assert!(Pos::from_u8(p.to_u8()) == Some(p), "VERIF from_u8(to_u8) {:?}", p);
    assert!(p.to_u8() == p as u8 && p.to_u8() < 64, "VERIF to_u8 {:?}", p);
    assert!(Pos::from_u8(x).is_some() == (x < 64), "VERIF from_u8 domain {}", x);
    if let Some(q) = Pos::from_u8(x) {
        assert!(q.to_u8() == x, "VERIF to_u8(from_u8) {}", x);
        assert!(Pos::const_from_u8(x) == q, "VERIF const_from_u8 {}", x);
    }
    assert!(Pos::new(p.file(), p.rank()) == p, "VERIF new(file,rank) {:?}", p);
    assert!(Pos::new(f, r).file() == f && Pos::new(f, r).rank() == r, "VERIF file/rank of new {:?} {:?}", f, r);
    assert!(p.to_u8() == (p.rank() as u8) * 8 + p.file() as u8, "VERIF index layout {:?}", p);
    assert!(File::from_u8(x).is_some() == (x < 8) && Rank::from_u8(x).is_some() == (x < 8), "VERIF file/rank from_u8 domain {}", x);
    assert!(File::from_u8(f.to_u8()) == Some(f) && f.to_u8() == f as u8, "VERIF file index {:?}", f);
    assert!(Rank::from_u8(r.to_u8()) == Some(r) && r.to_u8() == r as u8, "VERIF rank index {:?}", r);
    if x < 8 {
        assert!(File::const_from_u8(x) as u8 == x && Rank::const_from_u8(x) as u8 == x, "VERIF const_from_u8 {}", x);
    }
    assert!(Color::from_u8(x).map(|c| c as u8) == if x < 2 { Some(x) } else { None }, "VERIF Color::from_u8 {}", x);
    assert!(Side::from_u8(x).map(|c| c as u8) == if x < 2 { Some(x) } else { None }, "VERIF Side::from_u8 {}", x);
    assert!(Piece::from_u8(x).map(|c| c as u8) == if x < 6 { Some(x) } else { None }, "VERIF Piece::from_u8 {}", x);
}

#[kani::proof]
fn c19_steps() {
    let p: Pos = kani::any();
    let (f, r) = (p.file() as u8, p.rank() as u8);
    let idx = |o: Option<Pos>| o.map(|q| (q.file() as u8, q.rank() as u8));
    assert!(idx(p.shift_up()) == if r < 7 { Some((f, r + 1)) } else { None }, "VERIF shift_up {:?}", p);
    assert!(idx(p.shift_down()) == if r > 0 { Some((f, r - 1)) } else { None }, "VERIF shift_down {:?}", p);
    assert!(idx(p.shift_left()) == if f > 0 { Some((f - 1, r)) } else { None }, "VERIF shift_left {:?}", p);
    assert!(idx(p.shift_right()) == if f < 7 { Some((f + 1, r)) } else { None }, "VERIF shift_right {:?}", p);
    // mutually consistent
    if let Some(q) = p.shift_up() {
        assert!(q.shift_down() == Some(p), "VERIF up/down {:?}", p);
    }
    if let Some(q) = p.shift_left() {
        assert!(q.shift_right() == Some(p), "VERIF left/right {:?}", p);
    }
    let fl = p.flip_rank();
    assert!(fl.file() as u8 == f && fl.rank() as u8 == 7 - r, "VERIF flip_rank {:?}", p);
    assert!(fl.flip_rank() == p, "VERIF flip_rank involution {:?}", p);
    assert!(fl.to_u8() == p.to_u8() ^ 56, "VERIF flip_rank index {:?}", p);
    let fi: File = kani::any();
    let ra: Rank = kani::any();
    assert!(fi.shift_left().map(|x| x as u8) == if fi as u8 > 0 { Some(fi as u8 - 1) } else { None }, "VERIF File::shift_left {:?}", fi);
    assert!(fi.shift_right().map(|x| x as u8) == if (fi as u8) < 7 { Some(fi as u8 + 1) } else { None }, "VERIF File::shift_right {:?}", fi);
    assert!(ra.shift_down().map(|x| x as u8) == if ra as u8 > 0 { Some(ra as u8 - 1) } else { None }, "VERIF Rank::shift_down {:?}", ra);
    assert!(ra.shift_up().map(|x| x as u8) == if (ra as u8) < 7 { Some(ra as u8 + 1) } else { None }, "VERIF Rank::shift_up {:?}", ra);
    assert!(ra.flip() as u8 == 7 - ra as u8, "VERIF Rank::flip {:?}", ra);
    let f2: File = kani::any();
    let r2: Rank = kani::any();
    let d = |a: u8, b: u8| if a > b { a - b } else { b - a };
    assert!(fi.dist_to(f2) == d(fi as u8, f2 as u8), "VERIF File::dist_to {:?} {:?}", fi, f2);
    assert!(ra.dist_to(r2) == d(ra as u8, r2 as u8), "VERIF Rank::dist_to {:?} {:?}", ra, r2);
    assert!((fi.side() == Side::Queen) == ((fi as u8) < 4), "VERIF File::side {:?}", fi);
    assert!(fi.lower_letter() as u32 == 'a' as u32 + fi as u32 && fi.upper_letter() as u32 == 'A' as u32 + fi as u32, "VERIF letters {:?}", fi);
    assert!(!Color::White == Color::Black && !Color::Black == Color::White && !Side::King == Side::Queen && !Side::Queen == Side::King, "VERIF not");
}

/// single-byte parsers over all 256 bytes: accept exactly the intended spellings
#[kani::proof]
fn c19_parse_byte() {
    let b: u8 = kani::any();
    let file = File::from_ascii_byte(b).map(|f| f as u8);
    let want_file = if b >= b'a' && b <= b'h' {
        Some(b - b'a')
    } else if b >= b'A' && b <= b'H' {
        Some(b - b'A')
    } else {
        None
    };
    assert!(file == want_file, "VERIF File::from_ascii_byte {:#x} -> {:?}", b, file);
    let rank = Rank::from_ascii_byte(b).map(|r| r as u8);
    let want_rank = if b >= b'1' && b <= b'8' { Some(b - b'1') } else { None };
    assert!(rank == want_rank, "VERIF Rank::from_ascii_byte {:#x} -> {:?}", b, rank);
    let piece = Piece::from_ascii_byte(b);
    let want_piece = match b {
        b'p' | b'P' => Some(Piece::Pawn),
        b'n' | b'N' => Some(Piece::Knight),
        b'b' | b'B' => Some(Piece::Bishop),
        b'r' | b'R' => Some(Piece::Rook),
        b'q' | b'Q' => Some(Piece::Queen),
        b'k' | b'K' => Some(Piece::King),
        _ => None,
    };
    assert!(piece == want_piece, "VERIF Piece::from_ascii_byte {:#x} -> {:?}", b, piece);
    let promo = PromotionPiece::from_ascii_byte(b);
    let want_promo = match b {
        b'n' | b'N' => Some(PromotionPiece::Knight),
        b'b' | b'B' => Some(PromotionPiece::Bishop),
        b'r' | b'R' => Some(PromotionPiece::Rook),
        b'q' | b'Q' => Some(PromotionPiece::Queen),
        _ => None,
    };
    assert!(promo == want_promo, "VERIF PromotionPiece::from_ascii_byte {:#x} -> {:?}", b, promo);
    if let Some(pp) = promo {
        assert!(Some(pp.to_piece()) == piece && Piece::from(pp) as u8 == pp as u8, "VERIF to_piece {:?}", pp);
    }
}

/// slice parsers over ALL byte strings of length <= 3: exactly one byte (file, rank, piece) /
/// exactly two bytes file+rank (square); everything else rejected
#[kani::proof]
fn c19_parse_slice() {
    let buf: [u8; 3] = kani::any();
    let s = any_slice(&buf);
    let pos = Pos::from_ascii_bytes(s);
    let want = if s.len() == 2 {
        match (File::from_ascii_byte(s[0]), Rank::from_ascii_byte(s[1])) {
            (Some(f), Some(r)) => Some(Pos::new(f, r)),
            _ => None,
        }
    } else {
        None
    };
    assert!(pos == want, "VERIF Pos::from_ascii_bytes {:?} -> {:?}", s, pos);
    assert!(File::from_ascii_bytes(s) == if s.len() == 1 { File::from_ascii_byte(s[0]) } else { None }, "VERIF File::from_ascii_bytes {:?}", s);
    assert!(Rank::from_ascii_bytes(s) == if s.len() == 1 { Rank::from_ascii_byte(s[0]) } else { None }, "VERIF Rank::from_ascii_bytes {:?}", s);
    assert!(Piece::from_ascii_bytes(s) == if s.len() == 1 { Piece::from_ascii_byte(s[0]) } else { None }, "VERIF Piece::from_ascii_bytes {:?}", s);
    assert!(PromotionPiece::from_ascii_bytes(s) == if s.len() == 1 { PromotionPiece::from_ascii_byte(s[0]) } else { None }, "VERIF PromotionPiece::from_ascii_bytes {:?}", s);
}

struct Buf {
    b: [u8; 8],
    n: usize,
}
impl core::fmt::Write for Buf {
    fn write_str(&mut self, s: &str) -> core::fmt::Result {
        for &c in s.as_bytes() {
            if self.n >= 8 {
                return Err(core::fmt::Error);
            }
            self.b[self.n] = c;
            self.n += 1;
        }
        Ok(())
    }
}

/// text form of every square, file and rank parses back to the same value (Display -> bytes -> parser)
#[kani::proof]
#[kani::unwind(9)]
fn c19_display_roundtrip() {
    use core::fmt::Write;
    let p: Pos = kani::any();
    let mut w = Buf { b: [0; 8], n: 0 };
    assert!(write!(w, "{}", p).is_ok(), "VERIF Display Pos ok {:?}", p);
    assert!(w.n == 2 && w.b[0] == b'a' + p.file() as u8 && w.b[1] == b'1' + p.rank() as u8, "VERIF Display Pos text {:?}", p);
    assert!(Pos::from_ascii_bytes(&w.b[..w.n]) == Some(p), "VERIF Pos text round trip {:?}", p);
    let f: File = kani::any();
    let mut w = Buf { b: [0; 8], n: 0 };
    assert!(write!(w, "{}", f).is_ok() && w.n == 1, "VERIF Display File {:?}", f);
    assert!(File::from_ascii_bytes(&w.b[..w.n]) == Some(f), "VERIF File text round trip {:?}", f);
    let r: Rank = kani::any();
    let mut w = Buf { b: [0; 8], n: 0 };
    assert!(write!(w, "{}", r).is_ok() && w.n == 1, "VERIF Display Rank {:?}", r);
    assert!(Rank::from_ascii_bytes(&w.b[..w.n]) == Some(r), "VERIF Rank text round trip {:?}", r);
    let pp: PromotionPiece = kani::any();
    let mut w = Buf { b: [0; 8], n: 0 };
    assert!(write!(w, "{}", pp).is_ok() && w.n == 1, "VERIF Display PromotionPiece {:?}", pp);
    assert!(PromotionPiece::from_ascii_bytes(&w.b[..w.n]) == Some(pp), "VERIF PromotionPiece text round trip {:?}", pp);
}

/// apply one symbolic double-ended-iterator operation to the real iterator and to the slice iterator
fn step_both<T: Copy + PartialEq, A: DoubleEndedIterator<Item = T>, B: DoubleEndedIterator<Item = T>>(a: &mut A, b: &mut B) -> bool {
    let op: u8 = kani::any();
    kani::assume(op < 4);
    let n: usize = kani::any();
    let same = match op {
        0 => a.next() == b.next(),
        1 => a.next_back() == b.next_back(),
        2 => a.nth(n) == b.nth(n),
        _ => a.nth_back(n) == b.nth_back(n),
    };
    same && a.size_hint() == b.size_hint()
}

macro_rules! iter_vs_slice {
    ($name:ident, $ty:ty, $all:expr, $list:expr, $ops:expr) => {
        #[kani::proof]
        #[kani::unwind(12)]
        fn $name() {
            static LIST: &[$ty] = &$list;
            let mut a = $all;
            let mut b = LIST.iter().copied();
            assert!(a.size_hint() == b.size_hint(), "VERIF initial size_hint");
            let mut i = 0;
            while i < $ops {
                assert!(step_both(&mut a, &mut b), "VERIF iterator differs from the slice iterator at operation {}", i);
                i += 1;
            }
        }
    };
}
iter_vs_slice!(c19_iter_color, Color, Color::all(), [Color::White, Color::Black], 3);
iter_vs_slice!(c19_iter_side, Side, Side::all(), [Side::King, Side::Queen], 3);
iter_vs_slice!(c19_iter_piece, Piece, Piece::all(), [Piece::Pawn, Piece::Knight, Piece::Bishop, Piece::Rook, Piece::Queen, Piece::King], 7);
iter_vs_slice!(c19_iter_file, File, File::all(), [File::A, File::B, File::C, File::D, File::E, File::F, File::G, File::H], 9);
iter_vs_slice!(c19_iter_rank, Rank, Rank::all(), [Rank::_1, Rank::_2, Rank::_3, Rank::_4, Rank::_5, Rank::_6, Rank::_7, Rank::_8], 9);

/// per-file / per-rank square iterators and Pos::all(): induction step on an arbitrary internal state
#[kani::proof]
fn c19_iter_squares() {
    // AllPosIter: arbitrary state pos in 0..=64
    let k: u8 = kani::any();
    kani::assume(k <= 64);
    let mut it = AllPosIter { pos: k };
    assert!(it.size_hint() == ((64 - k) as usize, Some((64 - k) as usize)), "VERIF AllPosIter size_hint {}", k);
    let r = it.next();
    assert!(r.map(|p| p as u8) == if k < 64 { Some(k) } else { None }, "VERIF AllPosIter next {}", k);
    assert!(it.pos == if k < 64 { k + 1 } else { 64 }, "VERIF AllPosIter advance {}", k);
    assert!(Pos::all() == AllPosIter { pos: 0 }, "VERIF Pos::all start");
    // FileIter / RankIter: arbitrary sub-range state
    let (lo, hi): (u8, u8) = (kani::any(), kani::any());
    kani::assume(lo <= hi && hi <= 8);
    let f: File = kani::any();
    let mut fi = FileIter { file: f, ranks: AllRankIter { range: lo..hi } };
    assert!(fi.size_hint() == ((hi - lo) as usize, Some((hi - lo) as usize)), "VERIF FileIter size_hint");
    let r = fi.next();
    assert!(r.map(|p| (p.file(), p.rank() as u8)) == if lo < hi { Some((f, lo)) } else { None }, "VERIF FileIter next {:?} {}..{}", f, lo, hi);
    assert!(fi.ranks.range == ((if lo < hi { lo + 1 } else { lo })..hi), "VERIF FileIter advance");
    assert!(f.iter() == FileIter { file: f, ranks: AllRankIter { range: 0..8 } } && f.into_iter() == f.iter(), "VERIF File::iter start");
    let ra: Rank = kani::any();
    let mut ri = RankIter { rank: ra, files: AllFileIter { range: lo..hi } };
    assert!(ri.size_hint() == ((hi - lo) as usize, Some((hi - lo) as usize)), "VERIF RankIter size_hint");
    let r = ri.next();
    assert!(r.map(|p| (p.file() as u8, p.rank())) == if lo < hi { Some((lo, ra)) } else { None }, "VERIF RankIter next {:?} {}..{}", ra, lo, hi);
    assert!(ri.files.range == ((if lo < hi { lo + 1 } else { lo })..hi), "VERIF RankIter advance");
    assert!(ra.iter() == RankIter { rank: ra, files: AllFileIter { range: 0..8 } } && ra.into_iter() == ra.iter(), "VERIF Rank::iter start");
}

#[kani::proof]
fn c19_cover() {
    let buf: [u8; 3] = kani::any();
    let s = any_slice(&buf);
    kani::cover!(Pos::from_ascii_bytes(s) == Some(Pos::H8));
    kani::cover!(s.len() == 2 && s[0] == b'E' && Pos::from_ascii_bytes(s).is_some());
    kani::cover!(s.len() == 3);
    let mut it = File::all();
    kani::cover!(it.nth_back(2) == Some(File::F) && it.nth(4) == Some(File::E) && it.next().is_none());
}

/// negated twin: must be refuted
#[kani::proof]
fn c19_negtwin() {
    let b: u8 = kani::any();
    assert!(File::from_ascii_byte(b).is_some() != ((b | 0x20) >= b'a' && (b | 0x20) <= b'h'));
}
