//! C18 — bitboards behave as sets of squares.
//! Contracts stated square-wise against the plain membership model `mem(x, q) = bit q of x`
//! for a nondeterministic square q (set-extensional form), for ALL 2^64 boards and pairs.
//! Attribute contracts (woven by vlib/registry.py) sit on the non-const methods pop_unchecked / set / clear
//! (`pop` carries none: movegen's foreach-loop proofs replace it by a one-shot abstraction via kani::stub, and
//! Kani cannot stub a function that carries a contract); const fns cannot carry Kani contract attributes (their expansion is not const), so
//! their contracts are harness-stated here.
#[cfg(test)]
extern crate std;
#[cfg(test)]
use std::{vec, vec::Vec};

use crate::{BitBoard, BitBoardIter, File, Pos, Rank};

#[inline]
fn mem(x: u64, q: u8) -> bool {
    (x >> q) & 1 == 1
}
fn any_q() -> u8 {
    let q: u8 = kani::any();
    kani::assume(q < 64);
    q
}
fn count_spec(x: u64) -> u8 {
    let mut n = 0u8;
    let mut i = 0u8;
    while i < 64 {
        if mem(x, i) {
            n += 1;
        }
        i += 1;
    }
    n
}
/// squares strictly below p
fn below(p: u8) -> u64 {
    if p == 0 {
        0
    } else {
        u64::MAX >> (64 - p as u32)
    }
}

#[kani::proof]
fn c18_ctor() {
    let q = any_q();
    let p: Pos = kani::any();
    let f: File = kani::any();
    let r: Rank = kani::any();
    let x: u64 = kani::any();
    assert!(mem(BitBoard::from_pos(p).to_u64(), q) == (q == p as u8), "VERIF from_pos {:?} q={}", p, q);
    assert!(mem(BitBoard::from_file(f).to_u64(), q) == (q % 8 == f as u8), "VERIF from_file {:?} q={}", f, q);
    assert!(mem(BitBoard::from_rank(r).to_u64(), q) == (q / 8 == r as u8), "VERIF from_rank {:?} q={}", r, q);
    assert!(BitBoard::empty().to_u64() == 0, "VERIF empty");
    assert!(BitBoard::from_u64(x).to_u64() == x, "VERIF from_u64 {:#x}", x);
    assert!(BitBoard::from(p) == BitBoard::from_pos(p), "VERIF From<Pos> {:?}", p);
    assert!(BitBoard::from(f) == BitBoard::from_file(f), "VERIF From<File> {:?}", f);
    assert!(BitBoard::from(r) == BitBoard::from_rank(r), "VERIF From<Rank> {:?}", r);
    assert!(BitBoard::from(x).to_u64() == x, "VERIF From<u64> {:#x}", x);
    assert!(BitBoard::from(Some(p)) == BitBoard::from_pos(p), "VERIF From<Option> Some {:?}", p);
    assert!(BitBoard::from(None::<Pos>).to_u64() == 0, "VERIF From<Option> None");
    assert!(BitBoard::from_u64(x).contains(p) == mem(x, p as u8), "VERIF contains {:#x} {:?}", x, p);
    assert!((BitBoard::from_u64(x) == BitBoard::from_u64(kani::any())) || true);
}

#[kani::proof]
fn c18_setops() {
    let q = any_q();
    let (x, y): (u64, u64) = (kani::any(), kani::any());
    let (a, b) = (BitBoard::from_u64(x), BitBoard::from_u64(y));
    let (ma, mb) = (mem(x, q), mem(y, q));
    assert!(mem(a.or(b).to_u64(), q) == (ma || mb), "VERIF or {:#x} {:#x} q={}", x, y, q);
    assert!(mem((a | b).to_u64(), q) == (ma || mb), "VERIF | {:#x} {:#x} q={}", x, y, q);
    assert!(mem(a.and(b).to_u64(), q) == (ma && mb), "VERIF and {:#x} {:#x} q={}", x, y, q);
    assert!(mem((a & b).to_u64(), q) == (ma && mb), "VERIF & {:#x} {:#x} q={}", x, y, q);
    assert!(mem(a.xor(b).to_u64(), q) == (ma != mb), "VERIF xor {:#x} {:#x} q={}", x, y, q);
    assert!(mem((a ^ b).to_u64(), q) == (ma != mb), "VERIF ^ {:#x} {:#x} q={}", x, y, q);
    assert!(mem(a.diff(b).to_u64(), q) == (ma && !mb), "VERIF diff {:#x} {:#x} q={}", x, y, q);
    assert!(mem((a - b).to_u64(), q) == (ma && !mb), "VERIF - {:#x} {:#x} q={}", x, y, q);
    assert!(mem(a.not().to_u64(), q) == !ma, "VERIF not {:#x} q={}", x, q);
    assert!(mem((!a).to_u64(), q) == !ma, "VERIF ! {:#x} q={}", x, q);
    let mut c = a;
    c |= b;
    assert!(mem(c.to_u64(), q) == (ma || mb), "VERIF |= {:#x} {:#x} q={}", x, y, q);
    let mut c = a;
    c &= b;
    assert!(mem(c.to_u64(), q) == (ma && mb), "VERIF &= {:#x} {:#x} q={}", x, y, q);
    let mut c = a;
    c ^= b;
    assert!(mem(c.to_u64(), q) == (ma != mb), "VERIF ^= {:#x} {:#x} q={}", x, y, q);
    let mut c = a;
    c -= b;
    assert!(mem(c.to_u64(), q) == (ma && !mb), "VERIF -= {:#x} {:#x} q={}", x, y, q);
    // single-square insertion / removal
    let p: Pos = kani::any();
    let pq = p as u8;
    assert!(mem(a.with(p).to_u64(), q) == (ma || q == pq), "VERIF with {:#x} {:?} q={}", x, p, q);
    assert!(mem(a.cleared(p).to_u64(), q) == (ma && q != pq), "VERIF cleared {:#x} {:?} q={}", x, p, q);
    assert!(mem((a - p).to_u64(), q) == (ma && q != pq), "VERIF -Pos {:#x} {:?} q={}", x, p, q);
    let mut c = a;
    c.set(p);
    assert!(mem(c.to_u64(), q) == (ma || q == pq), "VERIF set {:#x} {:?} q={}", x, p, q);
    let mut c = a;
    c.clear(p);
    assert!(mem(c.to_u64(), q) == (ma && q != pq), "VERIF clear {:#x} {:?} q={}", x, p, q);
    let mut c = a;
    c -= p;
    assert!(mem(c.to_u64(), q) == (ma && q != pq), "VERIF -=Pos {:#x} {:?} q={}", x, p, q);
    // equality is set equality
    assert!((a == b) == (x == y), "VERIF eq {:#x} {:#x}", x, y);
}

#[kani::proof]
fn c18_shifts() {
    let q = any_q();
    let x: u64 = kani::any();
    let a = BitBoard::from_u64(x);
    // a square moves one step; squares that would leave the board vanish; nothing wraps
    assert!(mem(a.shift_up().to_u64(), q) == (q >= 8 && mem(x, q.wrapping_sub(8) & 63)), "VERIF shift_up {:#x} q={}", x, q);
    assert!(mem(a.shift_down().to_u64(), q) == (q < 56 && mem(x, (q + 8) & 63)), "VERIF shift_down {:#x} q={}", x, q);
    assert!(mem(a.shift_left().to_u64(), q) == (q % 8 != 7 && mem(x, (q + 1) & 63)), "VERIF shift_left {:#x} q={}", x, q);
    assert!(mem(a.shift_right().to_u64(), q) == (q % 8 != 0 && mem(x, q.wrapping_sub(1) & 63)), "VERIF shift_right {:#x} q={}", x, q);
    assert!(mem(a.flip_ranks().to_u64(), q) == mem(x, q ^ 56), "VERIF flip_ranks {:#x} q={}", x, q);
}

#[kani::proof]
#[kani::unwind(65)]
fn c18_count() {
    let x: u64 = kani::any();
    let a = BitBoard::from_u64(x);
    let n = count_spec(x);
    assert!(a.count() == n, "VERIF count {:#x}", x);
    assert!(a.any() == (n > 0), "VERIF any {:#x}", x);
    assert!(a.none() == (n == 0), "VERIF none {:#x}", x);
    assert!(a.all() == (n == 64), "VERIF all {:#x}", x);
    assert!(a.some() == (n < 64), "VERIF some {:#x}", x);
    let it = a.iter();
    assert!(it.size_hint() == (n as usize, Some(n as usize)), "VERIF size_hint {:#x}", x);
}

/// Attribute contracts (woven onto the real fns), discharged by proof_for_contract. The trailing assert
/// restates the ensures clause so that a counterexample also fails when replayed natively
/// (contract attributes are not executed outside Kani).
#[kani::proof_for_contract(BitBoard::pop_unchecked)]
fn c18_pop_unchecked_contract() {
    let mut a: BitBoard = kani::any();
    let o = a.to_u64();
    let p = unsafe { a.pop_unchecked() };
    let b = 1u64 << (p as u8);
    assert!(o & b != 0 && o & (b - 1) == 0 && a.to_u64() == o & !b, "VERIF pop_unchecked contract {:#x} -> {:?}", o, p);
}
#[kani::proof_for_contract(BitBoard::set)]
fn c18_set_contract() {
    let mut a: BitBoard = kani::any();
    let o = a.to_u64();
    let p: Pos = kani::any();
    a.set(p);
    assert!(a.to_u64() == o | (1u64 << (p as u8)), "VERIF set contract {:#x} {:?}", o, p);
}
#[kani::proof_for_contract(BitBoard::clear)]
fn c18_clear_contract() {
    let mut a: BitBoard = kani::any();
    let o = a.to_u64();
    let p: Pos = kani::any();
    a.clear(p);
    assert!(a.to_u64() == o & !(1u64 << (p as u8)), "VERIF clear contract {:#x} {:?}", o, p);
}

/// the same statement for pop, harness-stated square-wise (independent of the attribute form)
#[kani::proof]
fn c18_pop() {
    let q = any_q();
    let x: u64 = kani::any();
    let mut a = BitBoard::from_u64(x);
    match a.pop() {
        None => assert!(x == 0 && a.to_u64() == 0, "VERIF pop None {:#x}", x),
        Some(p) => {
            let p = p as u8;
            assert!(mem(x, p) && x & below(p) == 0, "VERIF pop lowest {:#x} -> {}", x, p);
            assert!(mem(a.to_u64(), q) == (mem(x, q) && q != p), "VERIF pop removes exactly it {:#x} q={}", x, q);
        }
    }
    let mut b = BitBoard::from_u64(x);
    if x != 0 {
        let p = unsafe { b.pop_unchecked() } as u8;
        assert!(mem(x, p) && x & below(p) == 0, "VERIF pop_unchecked lowest {:#x} -> {}", x, p);
        assert!(mem(b.to_u64(), q) == (mem(x, q) && q != p), "VERIF pop_unchecked removes exactly it {:#x} q={}", x, q);
    }
}

/// iteration step: next() yields the lowest member and the iterator then ranges over the rest;
/// by induction the iterator yields every member exactly once in ascending order, then None.
#[kani::proof]
#[kani::unwind(65)]
fn c18_iter_next() {
    let x: u64 = kani::any();
    let mut it = BitBoard::from_u64(x).iter();
    let before = it.size_hint().0;
    match it.next() {
        None => {
            assert!(x == 0, "VERIF next None on {:#x}", x);
            assert!(it.next().is_none(), "VERIF fused");
        }
        Some(p) => {
            let p = p as u8;
            assert!(mem(x, p) && x & below(p) == 0, "VERIF next lowest {:#x} -> {}", x, p);
            assert!(it == BitBoard::from_u64(x & !(1u64 << p)).iter(), "VERIF next rest {:#x}", x);
            assert!(it.size_hint().0 + 1 == before, "VERIF size_hint decreases {:#x}", x);
        }
    }
    // IntoIterator is the same iterator
    assert!(BitBoard::from_u64(x).into_iter() == BitBoard::from_u64(x).iter(), "VERIF into_iter");
}

/// nth(n) == skipping n elements then next, for all boards; n <= 3 (bounded: the compiled body is
/// core's default `Iterator::nth`; the full-range query with a symbolic n did not finish in 15 min)
#[kani::proof]
#[kani::unwind(6)]
fn c18_iter_nth() {
    let x: u64 = kani::any();
    let n: usize = kani::any();
    kani::assume(n <= 3);
    let mut a = BitBoard::from_u64(x).iter();
    let r = a.nth(n);
    let mut b = BitBoard::from_u64(x).iter();
    let mut i = 0usize;
    let mut exhausted = false;
    while i < n {
        if b.next().is_none() {
            exhausted = true;
            break;
        }
        i += 1;
    }
    let r2 = if exhausted { None } else { b.next() };
    assert!(r == r2, "VERIF nth == skip n then next {:#x} n={}", x, n);
    assert!(a == b, "VERIF nth leaves the same rest {:#x} n={}", x, n);
    // and the skipped prefix is exactly the n lowest members
    if let Some(p) = r {
        let p = p as u8;
        assert!(mem(x, p), "VERIF nth member {:#x} n={}", x, n);
        assert!((x & below(p)).count_ones() as usize == n, "VERIF nth skips exactly n {:#x} n={}", x, n);
    }
}

/// collection from iterators (bounded: up to 4 items; the bound is the iterator length only)
#[kani::proof]
#[kani::unwind(6)]
fn c18_from_iter() {
    let q = any_q();
    let ps: [Pos; 4] = [kani::any(), kani::any(), kani::any(), kani::any()];
    let k: usize = kani::any();
    kani::assume(k <= 4);
    let b: BitBoard = ps[..k].iter().copied().collect();
    let mut want = false;
    let mut i = 0;
    while i < k {
        want = want || ps[i] as u8 == q;
        i += 1;
    }
    assert!(mem(b.to_u64(), q) == want, "VERIF FromIterator<Pos> q={} k={}", q, k);
    let xs: [u64; 3] = [kani::any(), kani::any(), kani::any()];
    let j: usize = kani::any();
    kani::assume(j <= 3);
    let u: BitBoard = xs[..j].iter().map(|&x| BitBoard::from_u64(x)).collect();
    let mut want = false;
    let mut i = 0;
    while i < j {
        want = want || mem(xs[i], q);
        i += 1;
    }
    assert!(mem(u.to_u64(), q) == want, "VERIF FromIterator<BitBoard> q={} j={}", q, j);
}

#[kani::proof]
#[kani::unwind(67)]
fn c18_cover() {
    let x: u64 = kani::any();
    let a = BitBoard::from_u64(x);
    kani::cover!(a.shift_left().any() && a.shift_up().none());
    kani::cover!(a.count() == 64);
    let mut it = a.iter();
    kani::cover!(it.nth(3).is_some());
    let mut b = a;
    kani::cover!(matches!(b.pop(), Some(Pos::H8)));
}

/// negated twin: must be refuted
#[kani::proof]
fn c18_negtwin() {
    let q = any_q();
    let x: u64 = kani::any();
    assert!(mem(BitBoard::from_u64(x).shift_left().to_u64(), q) != (q % 8 != 7 && mem(x, (q + 1) & 63)));
}
