//! C20 — per-thread tracing override. Sequential contracts on the eight real functions over the
//! state (L: this thread's tri-state override, G: global flag); each contract pins BOTH
//! components, so the frame ("touches nothing else") is part of the postcondition.
use crate::*;
use std::sync::atomic::Ordering;

#[derive(Clone, Copy, PartialEq, Eq, Debug)]
enum L {
    Global,
    Enabled,
    Disabled,
}
fn get_l() -> L {
    match LOCAL_ENABLED.with(|x| x.get()) {
        LocalFlag::Global => L::Global,
        LocalFlag::Enabled => L::Enabled,
        LocalFlag::Disabled => L::Disabled,
    }
}
fn get_g() -> bool {
    IS_ENABLED.load(Ordering::SeqCst)
}
/// put the system into an arbitrary one of its 3 x 2 states
fn any_state() -> (L, bool) {
    let t: u8 = kani::any();
    kani::assume(t < 3);
    let g: bool = kani::any();
    let (l, f) = match t {
        0 => (L::Global, LocalFlag::Global),
        1 => (L::Enabled, LocalFlag::Enabled),
        _ => (L::Disabled, LocalFlag::Disabled),
    };
    LOCAL_ENABLED.with(|x| x.set(f));
    IS_ENABLED.store(g, Ordering::SeqCst);
    (l, g)
}
fn view(l: L, g: bool) -> bool {
    match l {
        L::Global => g,
        L::Enabled => true,
        L::Disabled => false,
    }
}
fn toggled(l: L) -> L {
    match l {
        L::Global => L::Global,
        L::Enabled => L::Disabled,
        L::Disabled => L::Enabled,
    }
}

/// is_enabled(): own override if any, else the global; reads only
#[kani::proof]
fn c20_is_enabled() {
    let (l, g) = any_state();
    let r = is_enabled();
    assert!(r == view(l, g), "VERIF is_enabled L={:?} G={} -> {}", l, g, r);
    assert!(get_l() == l && get_g() == g, "VERIF is_enabled frame L={:?} G={}", l, g);
}

/// local_* operations: L' as specified, G' == G
#[kani::proof]
fn c20_local_ops() {
    let (l, g) = any_state();
    let op: u8 = kani::any();
    kani::assume(op < 3);
    let want = match op {
        0 => { local_enable(); L::Enabled }
        1 => { local_disable(); L::Disabled }
        _ => { local_toggle(); toggled(l) }
    };
    assert!(get_l() == want, "VERIF local op {} from L={:?}: L'={:?}", op, l, get_l());
    assert!(get_g() == g, "VERIF local op {} changed the global flag (G={})", op, g);
}

/// global operations: enable/disable set both; toggle = local_toggle + G' = !G
#[kani::proof]
fn c20_global_ops() {
    let (l, g) = any_state();
    let op: u8 = kani::any();
    kani::assume(op < 3);
    let (wl, wg) = match op {
        0 => { enable(); (L::Enabled, true) }
        1 => { disable(); (L::Disabled, false) }
        _ => { toggle(); (toggled(l), !g) }
    };
    assert!(get_l() == wl, "VERIF global op {} from L={:?}: L'={:?}", op, l, get_l());
    assert!(get_g() == wg, "VERIF global op {} from G={}: G'={}", op, g, get_g());
}

/// local_take returns L and resets to Global; restore(s) sets L = s; neither touches G.
/// Saving, doing arbitrary local operations, restoring returns L to the saved state.
#[kani::proof]
fn c20_take_restore() {
    let (l, g) = any_state();
    let saved = local_take();
    assert!(get_l() == L::Global && get_g() == g, "VERIF take from L={:?}", l);
    // arbitrary intervening operations of this thread
    let op: u8 = kani::any();
    kani::assume(op < 7);
    match op {
        0 => local_enable(),
        1 => local_disable(),
        2 => local_toggle(),
        3 => enable(),
        4 => disable(),
        5 => toggle(),
        _ => (),
    }
    let g2 = get_g();
    restore(saved);
    assert!(get_l() == l, "VERIF restore: saved {:?}, got {:?} (op {})", l, get_l(), op);
    assert!(get_g() == g2, "VERIF restore changed the global flag");
    assert!(is_enabled() == view(l, g2), "VERIF view after restore");
}

/// Two-thread isolation, operation-granularity interleavings: thread B's operations are modelled by their
/// verified effect on G only (B's contract frame: L_B and G; L_A is a different object by thread_local!);
/// A's view must be L_A if set, else the latest G, and A's override must be unchanged.
#[kani::proof]
fn c20_other_thread_effects() {
    let (l, _g) = any_state();
    // an arbitrary sequence of B's operations leaves an arbitrary global value behind
    let g_after_b: bool = kani::any();
    IS_ENABLED.store(g_after_b, Ordering::SeqCst);
    assert!(get_l() == l, "VERIF other thread changed override");
    assert!(is_enabled() == view(l, g_after_b), "VERIF view after other thread");
}

#[kani::proof]
fn c20_cover() {
    let (l, g) = any_state();
    toggle();
    kani::cover!(l == L::Global && g && !is_enabled());
    kani::cover!(l == L::Enabled && !is_enabled());
    kani::cover!(l == L::Disabled && is_enabled());
}

/// negated twin: must be refuted
#[kani::proof]
fn c20_negtwin() {
    let (l, g) = any_state();
    assert!(is_enabled() != view(l, g));
}
