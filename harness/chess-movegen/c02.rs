//! C02 — applying a legal move yields the correct successor; C03 — incremental check/pin sets never stale;
//! C04 — incremental hash. Contract of the only mutator `Board::move_unchecked_into`, discharged conjunct by
//! conjunct on the same real call and per move kind (one path through the if-ladder per query):
//!   .place : view(out) == apply(view(self), mv)      (placement, turn, rights, e.p. marker, clocks)
//!   .hash  : out.zobrist == self.zobrist ^ keys of exactly the squares/pieces `apply` changes (delta form)
//!   .cache : out.checkers / out.pinned == from-scratch spec of the successor (nondeterministic square)
//! Board::xor is replaced by its contract (C04.xor); chess_lookup accessors by their C09 contracts. The slider
//! re-scan loop at the end of make-move is treated as a foreach loop (one-shot iterator: body for an arbitrary
//! member; frame of the body = it writes only checkers/pinned), with the real iterator in the bounded `.loop2`.
use super::kani_verif_common::*;
use crate::{Board, ChessMove};
use chess_bitboard::{Color, Piece, Pos};

/// what the constructors / make-move guarantee about `self`, minus everything a conjunct does not need
fn pre_board(b: &Board) -> r::P {
    let p = view(b);
    kani::assume(r::one_king_each(&p) && r::at_most_16(&p) && r::rights_ok(&p) && r::ep_ok(&p));
    kani::assume(p.pcs[r::PAWN as usize] & (g::rank_set(0) | g::rank_set(7)) == 0);
    kani::assume(p.half < 65535 && p.full < 65535);
    p
}
/// move kinds: one path through make-move's if-ladder each
fn kind_of(p: &r::P, m: r::Mv) -> u8 {
    let piece = r::piece_at(p, m.src).unwrap_or(9);
    let df = g::file_of(m.dst) as i8 - g::file_of(m.src) as i8;
    if piece == r::PAWN {
        if m.promo != 0 {
            5
        } else if df != 0 && !g::has(r::occ(p), m.dst) {
            4
        } else {
            3
        }
    } else if piece == r::KING {
        if df == 2 || df == -2 {
            2
        } else {
            1
        }
    } else {
        0
    }
}
fn sq(i: u8) -> Pos {
    Pos::from_u8(i).unwrap()
}
fn piece_of_idx(i: u8) -> Piece {
    Piece::from_u8(i).unwrap()
}
/// keys of exactly the squares/pieces the rules change
fn hash_delta(p: &r::P, m: r::Mv) -> u64 {
    let us = color_of(p.turn);
    let them = color_of(1 - p.turn);
    let piece = r::piece_at(p, m.src).unwrap();
    let placed = if piece == r::PAWN && m.promo != 0 { m.promo } else { piece };
    let mut h = chess_lookup::zobrist(sq(m.src), piece_of_idx(piece), us) ^ chess_lookup::zobrist(sq(m.dst), piece_of_idx(placed), us);
    if g::has(p.col[(1 - p.turn) as usize], m.dst) {
        h ^= chess_lookup::zobrist(sq(m.dst), piece_of_idx(r::piece_at(p, m.dst).unwrap()), them);
    } else if piece == r::PAWN && g::file_of(m.src) != g::file_of(m.dst) {
        h ^= chess_lookup::zobrist(sq(g::sq_of(g::file_of(m.dst), g::rank_of(m.src))), Piece::Pawn, them);
    }
    let df = g::file_of(m.dst) as i8 - g::file_of(m.src) as i8;
    if piece == r::KING && (df == 2 || df == -2) {
        let hr = g::rank_of(m.src);
        let (from, to) = if df == 2 { (g::sq_of(7, hr), g::sq_of(5, hr)) } else { (g::sq_of(0, hr), g::sq_of(3, hr)) };
        h ^= chess_lookup::zobrist(sq(from), Piece::Rook, us) ^ chess_lookup::zobrist(sq(to), Piece::Rook, us);
    }
    h
}

fn setup(kind: u8) -> (Board, r::P, ChessMove, r::Mv) {
    let b = any_board();
    let p = pre_board(&b);
    let mv = any_move();
    let m = mv_of(mv);
    kani::assume(r::pattern_ok(&p, m));
    kani::assume(kind_of(&p, m) == kind);
    (b, p, mv, m)
}

macro_rules! apply_kind {
    ($place:ident, $hash:ident, $cache:ident, $kind:expr) => {
        #[kani::proof]
        #[kani::unwind(9)]
        #[kani::stub(chess_bitboard::BitBoard::pop, pop_one_shot)]
        #[kani::stub(crate::Board::xor, xor_contract_stub)]
        #[kani::stub_verified(chess_lookup::between)]
        #[kani::stub_verified(chess_lookup::rook_rays)]
        #[kani::stub_verified(chess_lookup::bishop_rays)]
        #[kani::stub_verified(chess_lookup::knight_moves)]
        #[kani::stub_verified(chess_lookup::pawn_attacks_moves)]
        fn $place() {
            let (b, p, mv, m) = setup($kind);
            let before = b;
            let mut out = any_board();
            unsafe { b.move_unchecked_into(mv, &mut out) };
            let want = r::apply(&p, m);
            let got = view(&out);
            assert!(got.col[0] == want.col[0] && got.col[1] == want.col[1], "VERIF successor colour sets wrong after {:?} on [{}]", mv, b);
            assert!(got.pcs[0] == want.pcs[0] && got.pcs[1] == want.pcs[1] && got.pcs[2] == want.pcs[2], "VERIF successor pawn/knight/bishop sets wrong after {:?} on [{}]", mv, b);
            assert!(got.pcs[3] == want.pcs[3] && got.pcs[4] == want.pcs[4] && got.pcs[5] == want.pcs[5], "VERIF successor rook/queen/king sets wrong after {:?} on [{}]", mv, b);
            assert!(got.turn == want.turn, "VERIF side to move not flipped after {:?}", mv);
            assert!(got.rights == want.rights, "VERIF castling rights after {:?} on [{}]: got {} want {}", mv, b, got.rights, want.rights);
            assert!(got.ep == want.ep, "VERIF en-passant marker after {:?} on [{}]: got {} want {}", mv, b, got.ep, want.ep);
            assert!(got.half == want.half, "VERIF half-move clock after {:?} on [{}]: got {} want {}", mv, b, got.half, want.half);
            assert!(got.full == want.full, "VERIF full-move number after {:?}: got {} want {}", mv, got.full, want.full);
            assert!(same_view(&view(&b), &view(&before)) && b.zobrist == before.zobrist, "VERIF make-move modified self");
            // vacuity guards AFTER the call: the end of the harness is reachable with and without a capture
            kani::cover!(g::has(r::occ(&p), m.dst) || $kind == 4 || $kind == 2, "reach: end of harness with a capture (or a kind that has none)");
            kani::cover!(!g::has(r::occ(&p), m.dst), "reach: end of harness without a capture on the destination");
        }

        #[kani::proof]
        #[kani::unwind(9)]
        #[kani::stub(chess_bitboard::BitBoard::pop, pop_one_shot)]
        #[kani::stub(crate::Board::xor, xor_contract_stub)]
        #[kani::stub_verified(chess_lookup::between)]
        #[kani::stub_verified(chess_lookup::rook_rays)]
        #[kani::stub_verified(chess_lookup::bishop_rays)]
        #[kani::stub_verified(chess_lookup::knight_moves)]
        #[kani::stub_verified(chess_lookup::pawn_attacks_moves)]
        fn $hash() {
            let (b, p, mv, m) = setup($kind);
            let mut out = any_board();
            unsafe { b.move_unchecked_into(mv, &mut out) };
            assert!(out.zobrist == b.zobrist ^ hash_delta(&p, m), "VERIF incremental hash after {:?} on [{}]", mv, b);
            kani::cover!(g::has(r::occ(&p), m.dst) || $kind == 4 || $kind == 2, "reach: end of harness with a capture (or a kind that has none)");
            kani::cover!(!g::has(r::occ(&p), m.dst), "reach: end of harness without a capture on the destination");
        }

        /// foreach-loop proof of the slider re-scan (as for update_pin_info): with the one-shot iterator the loop
        /// ranges over exactly the successor's pinner set; for an ARBITRARY such slider the body adds it to checkers
        /// iff nothing stands between it and the enemy king, else the single blocker to pinned; direct knight /
        /// pawn / knight-promotion checks are added by the if-ladder. With lemma C03.pin_lemma (applied to the
        /// successor) this is: out.checkers / out.pinned == from-scratch spec of the successor.
        #[kani::proof]
        #[kani::unwind(9)]
        #[kani::stub(chess_bitboard::BitBoard::pop, pop_one_shot)]
        #[kani::stub(crate::Board::xor, xor_contract_stub)]
        #[kani::stub_verified(chess_lookup::between)]
        #[kani::stub_verified(chess_lookup::rook_rays)]
        #[kani::stub_verified(chess_lookup::bishop_rays)]
        #[kani::stub_verified(chess_lookup::knight_moves)]
        #[kani::stub_verified(chess_lookup::pawn_attacks_moves)]
        fn $cache() {
            let (b, p, mv, m) = setup($kind);
            // the side not to move is not in check in `self` (established by every constructor, preserved by legal moves)
            kani::assume(r::opponent_not_in_check(&p));
            let mut out = any_board();
            unsafe { b.move_unchecked_into(mv, &mut out) };
            let succ = r::apply(&p, m);
            let k = r::king_of(&succ, succ.turn);
            let set = if npops() >= 1 { pop_set(0) } else { 0 };
            assert!(npops() <= 1 && set == r::pinners_spec(&succ), "VERIF slider re-scan after {:?} ranges over {:#x}, successor's pinners {:#x}", mv, set, r::pinners_spec(&succ));
            let (mut want_c, mut want_p) = (r::leaper_checkers_spec(&succ), 0u64);
            if npops() == 1 {
                let s = popped(0);
                let btw = g::between_spec(k, s) & r::occ(&succ);
                if btw == 0 {
                    want_c |= g::bit(s);
                } else if btw.count_ones() == 1 {
                    want_p = btw;
                }
            }
            assert!(out.checkers.to_u64() == want_c, "VERIF stale checkers after {:?} on [{}]: {:#x} want {:#x}", mv, b, out.checkers.to_u64(), want_c);
            assert!(out.pinned.to_u64() == want_p, "VERIF stale pinned after {:?} on [{}]: {:#x} want {:#x}", mv, b, out.pinned.to_u64(), want_p);
            kani::cover!(g::has(r::occ(&p), m.dst) || $kind == 4 || $kind == 2, "reach: end of harness with a capture (or a kind that has none)");
            kani::cover!(npops() == 1 && want_c != 0, "reach: a slider gives check after the move");
            kani::cover!(npops() == 1 && want_p != 0, "reach: a slider pins a piece after the move");
        }
    };
}
apply_kind!(c02_place_piece, c02_hash_piece, c02_cache_piece, 0);
apply_kind!(c02_place_king, c02_hash_king, c02_cache_king, 1);
apply_kind!(c02_place_castle, c02_hash_castle, c02_cache_castle, 2);
apply_kind!(c02_place_pawn, c02_hash_pawn, c02_cache_pawn, 3);
apply_kind!(c02_place_ep, c02_hash_ep, c02_cache_ep, 4);
apply_kind!(c02_place_promo, c02_hash_promo, c02_cache_promo, 5);

/// skeleton of the slider re-scan loop (bounded): the real iterator, successor restricted to <= 2 pinners;
/// out.checkers / out.pinned == from-scratch spec of the successor, every move kind
#[kani::proof]
#[kani::unwind(9)]
#[kani::stub(crate::Board::xor, xor_contract_stub)]
#[kani::stub_verified(chess_lookup::between)]
#[kani::stub_verified(chess_lookup::rook_rays)]
#[kani::stub_verified(chess_lookup::bishop_rays)]
#[kani::stub_verified(chess_lookup::knight_moves)]
#[kani::stub_verified(chess_lookup::pawn_attacks_moves)]
fn c02_cache_loop2() {
    let b = any_board();
    let p = pre_board(&b);
    let mv = any_move();
    let m = mv_of(mv);
    kani::assume(r::pattern_ok(&p, m) && r::opponent_not_in_check(&p));
    let succ = r::apply(&p, m);
    kani::assume(r::pinners_spec(&succ).count_ones() <= 2);
    let mut out = any_board();
    unsafe { b.move_unchecked_into(mv, &mut out) };
    let q: u8 = kani::any();
    kani::assume(q < 64);
    assert!(g::has(out.checkers.to_u64(), q) == r::is_checker(&succ, q), "VERIF stale checkers at square {} after {:?}", q, mv);
    assert!(g::has(out.pinned.to_u64(), q) == r::is_pinned(&succ, q), "VERIF stale pinned at square {} after {:?}", q, mv);
    assert!(same_view(&view(&out), &succ), "VERIF successor position after {:?} (real loop, <= 2 pinners)", mv);
    assert!(out.zobrist == b.zobrist ^ hash_delta(&p, m), "VERIF incremental hash after {:?} (real loop, <= 2 pinners)", mv);
}

/// remove_for_sq(colour, sq) for all 16 x 2 x 64 inputs clears exactly the rights whose king / rook home
/// square is sq for that colour; the nibble stays in range
#[kani::proof]
fn c02_rights_table() {
    let bits: u8 = kani::any();
    kani::assume(bits < 16);
    let mut cr = rights_from_bits(bits);
    let c: Color = kani::any();
    let s: Pos = kani::any();
    cr.remove_for_sq(c, s);
    let hr = if c == Color::White { 0 } else { 7 };
    let (k, q) = if c == Color::White { (r::R_WK, r::R_WQ) } else { (r::R_BK, r::R_BQ) };
    let mut want = bits;
    if s as u8 == g::sq_of(4, hr) {
        want &= !(k | q);
    }
    if s as u8 == g::sq_of(7, hr) {
        want &= !k;
    }
    if s as u8 == g::sq_of(0, hr) {
        want &= !q;
    }
    assert!(rights_bits(cr) == want, "VERIF remove_for_sq({:?},{:?}) on {}: {} want {}", c, s, bits, rights_bits(cr), want);
    assert!(cr.to_index() < 16, "VERIF rights nibble out of range");
}

// ---------------------------------------------------------------- checked operations
/// ghost oracle: legality of the offered move, computed once by the harness from the spec
static mut ORACLE_LEGAL: bool = false;
/// contract abstraction of is_legal (its contract is C01: result == legal(view(self), mv))
fn is_legal_contract_stub(_b: &Board, _mv: ChessMove) -> bool {
    unsafe { ORACLE_LEGAL }
}
/// contract abstraction of move_unchecked_into (its contract is the C02.place.* family): requires legality
unsafe fn make_move_contract_stub(b: &Board, mv: ChessMove, out: &mut Board) {
    assert!(unsafe { ORACLE_LEGAL }, "VERIF move_unchecked_into called with an illegal move");
    *out = any_board();
    kani::assume(same_view(&view(out), &r::apply(&view(b), mv_of(mv))));
}
fn checked_setup() -> (Board, r::P, ChessMove, bool, r::P) {
    let b = any_board();
    let p = view(&b);
    kani::assume(r::one_king_each(&p));
    let mv = any_move();
    let legal = r::legal(&p, mv_of(mv));
    unsafe { ORACLE_LEGAL = legal };
    let want = r::apply(&p, mv_of(mv));
    (b, p, mv, legal, want)
}
/// move_new / move_mut / move_into accept exactly the legal moves (given is_legal's contract) and leave the
/// board untouched when they refuse; every (from, to, promotion) triple
#[kani::proof]
#[kani::unwind(9)]
#[kani::stub(crate::Board::is_legal, is_legal_contract_stub)]
#[kani::stub(crate::Board::move_unchecked_into, make_move_contract_stub)]
fn c02_move_new() {
    let (b, _p, mv, legal, want) = checked_setup();
    match b.move_new(mv) {
        Some(n) => assert!(legal && same_view(&view(&n), &want), "VERIF move_new accepted {:?}", mv),
        None => assert!(!legal, "VERIF move_new refused the legal move {:?}", mv),
    }
    kani::cover!(legal, "reach: a legal move offered");
    kani::cover!(!legal, "reach: an illegal move offered");
}
#[kani::proof]
#[kani::unwind(9)]
#[kani::stub(crate::Board::is_legal, is_legal_contract_stub)]
#[kani::stub(crate::Board::move_unchecked_into, make_move_contract_stub)]
fn c02_move_mut() {
    let (b, p, mv, legal, want) = checked_setup();
    let mut c = b;
    let ok = c.move_mut(mv);
    assert!(ok == legal, "VERIF move_mut({:?}) returned {}", mv, ok);
    if ok {
        assert!(same_view(&view(&c), &want), "VERIF move_mut result");
    } else {
        assert!(same_view(&view(&c), &p) && c.zobrist == b.zobrist && c.pinned == b.pinned && c.checkers == b.checkers, "VERIF move_mut refused but changed the board");
    }
    kani::cover!(ok, "reach: accepted");
    kani::cover!(!ok, "reach: refused");
}
#[kani::proof]
#[kani::unwind(9)]
#[kani::stub(crate::Board::is_legal, is_legal_contract_stub)]
#[kani::stub(crate::Board::move_unchecked_into, make_move_contract_stub)]
fn c02_move_into() {
    let (b, _p, mv, legal, want) = checked_setup();
    let o0 = any_board();
    let mut o = o0;
    let ok = b.move_into(mv, &mut o);
    assert!(ok == legal, "VERIF move_into({:?}) returned {}", mv, ok);
    if ok {
        assert!(same_view(&view(&o), &want), "VERIF move_into result");
    } else {
        assert!(same_view(&view(&o), &view(&o0)) && o.zobrist == o0.zobrist && o.pinned == o0.pinned && o.checkers == o0.checkers, "VERIF move_into refused but wrote the output");
    }
    kani::cover!(ok, "reach: accepted");
    kani::cover!(!ok, "reach: refused");
}

#[kani::proof]
#[kani::unwind(17)]
fn c02_cover() {
    let b = any_board();
    let p = pre_board(&b);
    let mv = any_move();
    let m = mv_of(mv);
    kani::assume(r::pattern_ok(&p, m));
    kani::cover!(kind_of(&p, m) == 2 && p.turn == g::BLACK);
    kani::cover!(kind_of(&p, m) == 4 && p.turn == g::WHITE);
    kani::cover!(kind_of(&p, m) == 5 && g::has(r::occ(&p), m.dst) && m.promo == r::KNIGHT);
    kani::cover!(kind_of(&p, m) == 3 && r::apply(&p, m).ep != r::NO_EP);
    kani::cover!(kind_of(&p, m) == 0 && r::apply(&p, m).rights != p.rights);
}

/// spec-only lemma for the induction over histories: a legal move from a valid position leads to a valid position
/// (one king each, <= 16 per side, side that just moved not in check, castling rights only with king and rook at
/// home, e.p. marker behind a pawn that just made a double step, no pawn on a back rank)
#[kani::proof]
#[kani::unwind(9)]
fn c02_valid_preserved() {
    let b = any_board();
    let p = view(&b);
    kani::assume(r::valid(&p));
    let mv = any_move();
    let m = mv_of(mv);
    kani::assume(r::legal(&p, m));
    let q = r::apply(&p, m);
    assert!(r::wf_placement(&q), "VERIF successor is not a placement after {:?}", mv);
    assert!(r::one_king_each(&q) && r::at_most_16(&q), "VERIF successor king/piece counts after {:?}", mv);
    assert!(r::opponent_not_in_check(&q), "VERIF the side that just moved is in check after {:?}", mv);
    assert!(r::rights_ok(&q), "VERIF successor castling rights inconsistent after {:?}", mv);
    assert!(r::ep_ok(&q), "VERIF successor e.p. marker inconsistent after {:?}", mv);
    assert!(q.pcs[r::PAWN as usize] & (g::rank_set(0) | g::rank_set(7)) == 0, "VERIF pawn on a back rank after {:?}", mv);
    kani::cover!(m.promo != 0, "reach: promotion");
    kani::cover!(q.ep != r::NO_EP, "reach: double step");
}
