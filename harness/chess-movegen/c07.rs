//! C07 — the safe API never violates an unchecked-operation precondition. Most sites are obligations of
//! harnesses listed under other properties (run with Kani's default checks ON: pointer validity, arithmetic
//! overflow, unwrap/index panics, std's unsafe-precondition checks, reachability of unreachable_unchecked).
//! This file adds the site-specific ones and the safety-only runs under the WEAKER precondition
//! "accepted position" (pawns on the back ranks allowed).
use super::kani_verif_common::*;
use crate::castle_rights::CastleRights;
use crate::{Board, ChessMove};
use chess_bitboard::{BitBoard, Color, File, Pos, Rank, Side};

/// CastleRights stays a nibble under every public operation, so to_index() never reaches unreachable_unchecked
#[kani::proof]
fn c07_rights_range() {
    let bits: u8 = kani::any();
    kani::assume(bits < 16);
    let cr = rights_from_bits(bits);
    let (s, c): (Side, Color) = (kani::any(), kani::any());
    assert!(cr.with(s, c).to_index() < 16 && cr.without(s, c).to_index() < 16, "VERIF with/without leave the nibble");
    let mut a = cr;
    a.add(s, c);
    assert!(a.to_index() < 16 && a.contains(s, c), "VERIF add");
    let mut b = cr;
    b.remove(s, c);
    assert!(b.to_index() < 16 && !b.contains(s, c), "VERIF remove");
    let mut d = cr;
    d.remove_for_sq(c, kani::any());
    assert!(d.to_index() < 16, "VERIF remove_for_sq leaves the nibble");
    assert!(CastleRights::empty().to_index() == 0 && CastleRights::full().to_index() == 15, "VERIF empty/full");
    assert!(cr.contains_color(c) == (cr.contains(Side::King, c) || cr.contains(Side::Queen, c)), "VERIF contains_color");
}

/// king_sq(colour): with exactly one king of that colour pop_unchecked's precondition holds and the square is the king's
#[kani::proof]
fn c07_king_sq() {
    let b = any_board();
    let p = view(&b);
    let c: Color = kani::any();
    kani::assume(r::of(&p, col(c), r::KING).count_ones() == 1);
    assert!(b.king_sq(c) as u8 == r::king_of(&p, col(c)), "VERIF king_sq({:?})", c);
}

/// at most two pawns can capture en passant: the candidate squares are the adjacent files on one rank
#[kani::proof]
fn c07_ep_capturers() {
    let f: File = kani::any();
    let r_: Rank = kani::any();
    let cand = chess_lookup::ADJACENT_FILES[f] & BitBoard::from(r_);
    assert!(cand.count() <= 2, "VERIF more than two en-passant capturers possible on file {:?}", f);
}

/// safety-only: make-move on any ACCEPTED position (back-rank pawns allowed) with any pseudo-legal move:
/// piece_of_unchecked finds a piece, king_sq finds the enemy king, the clocks never overflow (any 16-bit value),
/// Board::xor is called with at most two squares, no index out of range
#[kani::proof]
#[kani::unwind(9)]
#[kani::stub(chess_bitboard::BitBoard::pop, pop_one_shot)]
#[kani::stub(crate::Board::xor, xor_contract_stub)]
#[kani::stub_verified(chess_lookup::between)]
#[kani::stub_verified(chess_lookup::rook_rays)]
#[kani::stub_verified(chess_lookup::bishop_rays)]
#[kani::stub_verified(chess_lookup::knight_moves)]
#[kani::stub_verified(chess_lookup::pawn_attacks_moves)]
fn c07_make_move_safety() {
    let b = any_board();
    let p = view(&b);
    kani::assume(r::one_king_each(&p) && r::at_most_16(&p) && r::rights_ok(&p) && r::ep_ok(&p));
    // clocks are NOT restricted: every 16-bit value is accepted by the builder
    let mv: ChessMove = any_move();
    kani::assume(r::pattern_ok(&p, mv_of(mv)));
    // a pawn standing on its own last rank cannot move at all, one on its first rank moves like any pawn
    let mut out = any_board();
    unsafe { b.move_unchecked_into(mv, &mut out) };
}

/// Pos::from_u8 in harness helpers is total on 0..63 (guards the harness itself against vacuity)
#[kani::proof]
fn c07_cover() {
    let b = any_board();
    let p = view(&b);
    kani::assume(r::one_king_each(&p) && r::rights_ok(&p) && r::ep_ok(&p));
    let mv: ChessMove = any_move();
    kani::cover!(r::pattern_ok(&p, mv_of(mv)) && p.pcs[r::PAWN as usize] & g::rank_set(7) != 0);
    kani::cover!(p.rights == 15 && p.ep != r::NO_EP);
    let _ = Pos::from_u8(kani::any());
}
