//! C10 — MoveGen honours its size and filtering contracts. Hosted inside `iter` (private fields).
//! Contracts are stated over an ARBITRARY iterator value g (symbolic entries, mask, index, promotion
//! cursor) subject to the structural invariant wf(g) that the generator and every operation establish —
//! stronger than "for all positions", and independent of C01.
//!
//!   pending(g) : the moves still encoded in the entries (4 per destination of a promotion entry, minus
//!                those the cursor already produced)
//!   view(g)    : the moves next() will still produce under the current mask
//! Both are used through membership of a nondeterministic query move q (set-extensional form) and through
//! view_len(g) = |view(g)|.
use super::*;
use crate::ChessMove;
use chess_bitboard::{BitBoard, Pos, PromotionPiece};

macro_rules! c10_instance {
    ($m:ident, $cap:expr) => {
        pub mod $m {
            use super::*;
            pub const CAP: usize = $cap;
// The abstract functions are evaluated on a SNAPSHOT of the iterator (plain arrays, constant-trip loops):
// one pass over the real ArrayVec per snapshot instead of a symbolic-length slice access per use.

#[derive(Clone, Copy)]
pub struct Snap {
    pub n: usize,
    pub src: [u8; CAP],
    pub moves: [u64; CAP],
    pub promo: [bool; CAP],
    pub mask: u64,
    pub index: usize,
    pub rem: usize,
}
pub fn snap(g: &MoveGen) -> Snap {
    let mut s = Snap { n: g.moves.len(), src: [0; CAP], moves: [0; CAP], promo: [false; CAP], mask: g.mask.to_u64(), index: g.index, rem: g.promotions.len() };
    let mut i = 0;
    while i < CAP {
        if i < s.n {
            let e = &g.moves[i];
            s.src[i] = e.src as u8;
            s.moves[i] = e.moves.to_u64();
            s.promo[i] = e.promotion;
        }
        i += 1;
    }
    s
}
/// build the real iterator from a snapshot
pub fn gen_of(s: &Snap) -> MoveGen {
    let mut moves = MoveList::default();
    let mut i = 0;
    while i < CAP {
        if i < s.n {
            moves.push(LegalMovesAt { src: Pos::from_u8(s.src[i]).unwrap(), moves: BitBoard::from_u64(s.moves[i]), promotion: s.promo[i] });
        }
        i += 1;
    }
    MoveGen { moves, promotions: PROMOTION_PIECES[4 - s.rem..].iter(), mask: BitBoard::from_u64(s.mask), index: s.index }
}
/// an arbitrary iterator value with up to CAP = 18 entries (the real capacity)
pub fn any_snap() -> Snap {
    let s = Snap { n: kani::any(), src: kani::any(), moves: kani::any(), promo: kani::any(), mask: kani::any(), index: kani::any(), rem: kani::any() };
    kani::assume(s.n <= CAP && s.index <= s.n && s.rem >= 1 && s.rem <= 4);
    let mut i = 0;
    while i < CAP {
        kani::assume(s.src[i] < 64);
        i += 1;
    }
    s
}
#[derive(Clone, Copy)]
pub struct Q {
    pub src: u8,
    pub dst: u8,
    pub piece: usize, // 0..3 = Q,R,B,N (yield order); 4 = none
}
pub fn piece_idx(p: Option<PromotionPiece>) -> usize {
    match p {
        Some(PromotionPiece::Queen) => 0,
        Some(PromotionPiece::Rook) => 1,
        Some(PromotionPiece::Bishop) => 2,
        Some(PromotionPiece::Knight) => 3,
        None => 4,
    }
}
pub fn q_of(m: ChessMove) -> Q {
    Q { src: m.source as u8, dst: m.dest as u8, piece: piece_idx(m.piece) }
}
pub fn any_q() -> Q {
    let q = Q { src: kani::any(), dst: kani::any(), piece: kani::any() };
    kani::assume(q.src < 64 && q.dst < 64 && q.piece <= 4);
    q
}
pub fn move_of(q: Q) -> ChessMove {
    ChessMove {
        source: Pos::from_u8(q.src).unwrap(),
        dest: Pos::from_u8(q.dst).unwrap(),
        piece: match q.piece {
            0 => Some(PromotionPiece::Queen),
            1 => Some(PromotionPiece::Rook),
            2 => Some(PromotionPiece::Bishop),
            3 => Some(PromotionPiece::Knight),
            _ => None,
        },
    }
}
pub fn same(a: Q, b: Q) -> bool {
    a.src == b.src && a.dst == b.dst && a.piece == b.piece
}
pub fn bit(sq: u8) -> u64 {
    1u64 << sq
}
pub fn masked(s: &Snap, i: usize) -> bool {
    s.moves[i] & s.mask != 0
}
/// does entry i encode move q (optionally: under the mask)?
pub fn entry_has(s: &Snap, i: usize, q: Q, use_mask: bool) -> bool {
    if s.src[i] != q.src || s.moves[i] & bit(q.dst) == 0 || s.promo[i] != (q.piece < 4) {
        return false;
    }
    if use_mask && s.mask & bit(q.dst) == 0 {
        return false;
    }
    if i == s.index && s.rem < 4 && s.promo[i] {
        // the lowest masked destination of the current entry is being expanded: Q,R,B,N in this order
        let m = s.moves[i] & s.mask;
        if m != 0 && m.trailing_zeros() as u8 == q.dst {
            return q.piece >= 4 - s.rem;
        }
    }
    true
}
pub fn in_pending(s: &Snap, q: Q) -> bool {
    let mut found = false;
    let mut i = 0;
    while i < CAP {
        if i < s.n && entry_has(s, i, q, false) {
            found = true;
        }
        i += 1;
    }
    found
}
pub fn in_view(s: &Snap, q: Q) -> bool {
    let mut found = false;
    let mut live = true;
    let mut i = 0;
    while i < CAP {
        if i < s.n && i >= s.index {
            if !masked(s, i) {
                live = false;
            }
            if live && entry_has(s, i, q, true) {
                found = true;
            }
        }
        i += 1;
    }
    found
}
pub fn view_len(s: &Snap) -> usize {
    // aligned with the real loop (`for legals in &self.moves[self.index..]`): step j looks at entry index + j
    let mut total = 0usize;
    let mut live = true;
    let mut j = 0;
    while j < CAP {
        let i = s.index + j;
        if i < s.n && i < CAP {
            if !masked(s, i) {
                live = false;
            }
            if live {
                let c = (s.moves[i] & s.mask).count_ones() as usize;
                total += if s.promo[i] { c * 4 } else { c };
            }
        }
        j += 1;
    }
    if s.rem < 4 {
        total -= 4 - s.rem;
    }
    total
}
/// structural invariant
pub fn wf(s: &Snap) -> bool {
    if s.index > s.n || s.rem == 0 || s.rem > 4 || s.n > CAP {
        return false;
    }
    let mut ok = true;
    let mut i = 0;
    while i < CAP {
        if i < s.n {
            // consumed entries hold no masked move; live entries with masked moves form a prefix
            if i < s.index && masked(s, i) {
                ok = false;
            }
            if i >= s.index && i + 1 < s.n && masked(s, i + 1) && !masked(s, i) {
                ok = false;
            }
        }
        i += 1;
    }
    // a partly consumed promotion cursor belongs to a live promotion entry at `index`
    if s.rem < 4 && !(s.index < s.n && s.promo[s.index] && masked(s, s.index)) {
        ok = false;
    }
    ok
}
/// the generator yields each move once: entries of the same source square have disjoint destinations
pub fn distinct(s: &Snap) -> bool {
    let mut ok = true;
    let mut i = 0;
    while i < CAP {
        let mut j = i + 1;
        while j < CAP {
            if j < s.n && s.src[i] == s.src[j] && s.moves[i] & s.moves[j] != 0 {
                ok = false;
            }
            j += 1;
        }
        i += 1;
    }
    ok
}

/// {wf, distinct} next() {None <=> view empty; Some(m) => m in view(old), removed from view and pending,
/// every other move's membership unchanged (so |view| drops by exactly one), wf preserved}
#[kani::proof]
#[kani::unwind(20)]
pub fn c10_next() {
    let old = any_snap();
    kani::assume(wf(&old) && distinct(&old));
    let mut g = gen_of(&old);
    let q = any_q();
    let r = g.next();
    let new = snap(&g);
    match r {
        None => {
            assert!(view_len(&old) == 0, "VERIF next() returned None while {} moves are still in view", view_len(&old));
            assert!(in_pending(&new, q) == in_pending(&old, q), "VERIF next()==None changed pending");
        }
        Some(mv) => {
            let m = q_of(mv);
            assert!(in_view(&old, m), "VERIF next() yielded {:?}, which was not in view", mv);
            assert!(!in_view(&new, m) && !in_pending(&new, m), "VERIF next() did not remove {:?}", mv);
            if !same(q, m) {
                assert!(in_view(&new, q) == in_view(&old, q), "VERIF next() changed view membership of {:?}", move_of(q));
                assert!(in_pending(&new, q) == in_pending(&old, q), "VERIF next() changed pending membership of {:?}", move_of(q));
            }
            assert!(wf(&new), "VERIF next() broke the structural invariant");
        }
    }
    kani::cover!(r.is_some() && old.rem == 2, "reach: a promotion yielded mid-expansion");
    kani::cover!(r.is_none() && old.n > 0, "reach: None with entries left");
}

/// len / is_empty / size_hint / count equal |view|
#[kani::proof]
#[kani::unwind(20)]
pub fn c10_len() {
    let s = any_snap();
    kani::assume(wf(&s));
    let g = gen_of(&s);
    let n = view_len(&s);
    assert!(g.len() == n, "VERIF len() = {} but {} moves are in view", g.len(), n);
    assert!(g.is_empty() == (n == 0), "VERIF is_empty() with {} moves in view", n);
    assert!(g.size_hint() == (n, Some(n)), "VERIF size_hint with {} moves in view", n);
    assert!(g.count() == n, "VERIF count() with {} moves in view", n);
}

/// {cursor at rest} set_mask(m) {pending unchanged; view = pending restricted to m; index = 0; wf}
#[kani::proof]
#[kani::unwind(20)]
pub fn c10_set_mask() {
    let old = any_snap();
    kani::assume(old.rem == 4);
    let mut g = gen_of(&old);
    let m: u64 = kani::any();
    let q = any_q();
    g.set_mask(BitBoard::from_u64(m));
    let new = snap(&g);
    assert!(in_pending(&new, q) == in_pending(&old, q), "VERIF set_mask changed pending membership of {:?}", move_of(q));
    assert!(in_view(&new, q) == (in_pending(&old, q) && m & bit(q.dst) != 0), "VERIF set_mask view membership of {:?}", move_of(q));
    assert!(new.index == 0 && new.mask == m && new.n == old.n && new.rem == 4, "VERIF set_mask index/mask/len");
    assert!(wf(&new), "VERIF set_mask broke the structural invariant");
}

/// {wf, cursor at rest} remove(m) {pending and view lose exactly the moves with destination in m; wf}
#[kani::proof]
#[kani::unwind(20)]
pub fn c10_remove() {
    let old = any_snap();
    kani::assume(wf(&old) && old.rem == 4);
    let mut g = gen_of(&old);
    let m: u64 = kani::any();
    let q = any_q();
    g.remove(BitBoard::from_u64(m));
    let new = snap(&g);
    assert!(in_pending(&new, q) == (in_pending(&old, q) && m & bit(q.dst) == 0), "VERIF remove pending membership of {:?}", move_of(q));
    assert!(in_view(&new, q) == (in_view(&old, q) && m & bit(q.dst) == 0), "VERIF remove view membership of {:?}", move_of(q));
    assert!(wf(&new), "VERIF remove broke the structural invariant");
}

/// {wf, distinct, cursor at rest, mv is not a promotion move and does not hit a promotion entry}
/// remove_move(mv) {true <=> mv was pending; pending and view lose exactly mv; wf}
#[kani::proof]
#[kani::unwind(20)]
pub fn c10_remove_move() {
    let old = any_snap();
    kani::assume(wf(&old) && distinct(&old) && old.rem == 4);
    let mv = any_q();
    // open known finding K1 (carve-out): remove_move ignores the promotion field
    kani::assume(mv.piece == 4);
    let mut i = 0;
    while i < CAP {
        if i < old.n {
            kani::assume(!(old.promo[i] && old.src[i] == mv.src && old.moves[i] & bit(mv.dst) != 0));
        }
        i += 1;
    }
    let mut g = gen_of(&old);
    let q = any_q();
    let r = g.remove_move(move_of(mv));
    let new = snap(&g);
    assert!(r == in_pending(&old, mv), "VERIF remove_move({:?}) returned {}", move_of(mv), r);
    assert!(!in_pending(&new, mv) && !in_view(&new, mv), "VERIF remove_move({:?}) left the move", move_of(mv));
    if !same(q, mv) {
        assert!(in_pending(&new, q) == in_pending(&old, q), "VERIF remove_move({:?}) changed pending membership of {:?}", move_of(mv), move_of(q));
        assert!(in_view(&new, q) == in_view(&old, q), "VERIF remove_move({:?}) changed view membership of {:?}", move_of(mv), move_of(q));
    }
    assert!(wf(&new), "VERIF remove_move broke the structural invariant");
}

/// clone is an independent copy with the same state
#[kani::proof]
#[kani::unwind(20)]
pub fn c10_clone() {
    let s = any_snap();
    let g = gen_of(&s);
    let mut c = g.clone();
    let cs = snap(&c);
    let q = any_q();
    assert!(in_view(&cs, q) == in_view(&s, q) && in_pending(&cs, q) == in_pending(&s, q), "VERIF clone differs");
    assert!(cs.index == s.index && cs.mask == s.mask && cs.rem == s.rem && cs.n == s.n, "VERIF clone fields differ");
    let _ = c.next();
    let after = snap(&g);
    assert!(in_view(&after, q) == in_view(&s, q) && after.index == s.index, "VERIF advancing a clone changed the original");
}

#[kani::proof]
#[kani::unwind(20)]
pub fn c10_cover() {
    let s = any_snap();
    kani::assume(wf(&s) && distinct(&s));
    kani::cover!(s.n == CAP && s.index == CAP - 1 && view_len(&s) > 0);
    kani::cover!(s.rem == 2 && view_len(&s) == 6);
    let mut g = gen_of(&s);
    let r = g.next();
    kani::cover!(matches!(r, Some(ChessMove { piece: Some(PromotionPiece::Knight), .. })) && g.index == 3);
    kani::cover!(r.is_none() && s.n > 0 && s.index < s.n);
}

/// negated twin: must be refuted
#[kani::proof]
#[kani::unwind(20)]
pub fn c10_negtwin() {
    let s = any_snap();
    kani::assume(wf(&s));
    let g = gen_of(&s);
    assert!(g.len() != view_len(&s));
}


        }
    };
}
// quick tier: up to 6 entries (bounded); thorough tier: the real capacity 18 (complete)
c10_instance!(cap3, 3);
c10_instance!(cap6, 6);
c10_instance!(cap18, 18);
use cap6::*;

// ---------------------------------------------------------------- open known findings: concrete witnesses
fn one_promotion_entry(moves: u64) -> MoveGen {
    let mut l = MoveList::default();
    l.push(LegalMovesAt { src: Pos::A7, moves: BitBoard::from_u64(moves), promotion: true });
    l.push(LegalMovesAt { src: Pos::E1, moves: BitBoard::from_pos(Pos::E2), promotion: false });
    MoveGen { moves: l, promotions: PROMOTION_PIECES.iter(), mask: !BitBoard::empty(), index: 0 }
}
/// K1 witness (must still FAIL): remove_move(a7a8=Q) must leave a7a8=R pending
#[kani::proof]
#[kani::unwind(20)]
fn c10_k1_witness() {
    let mut g = one_promotion_entry(1 << 56);
    let _ = g.remove_move(ChessMove { source: Pos::A7, dest: Pos::A8, piece: Some(PromotionPiece::Queen) });
    assert!(in_pending(&snap(&g), q_of(ChessMove { source: Pos::A7, dest: Pos::A8, piece: Some(PromotionPiece::Rook) })), "VERIF K1: remove_move(a7a8=Q) also removed a7a8=R");
}
/// K2 witness (must still FAIL): set_mask while a promotion destination is partly expanded must keep
/// every pending move reachable
#[kani::proof]
#[kani::unwind(20)]
fn c10_k2_witness() {
    let mut g = one_promotion_entry((1 << 56) | (1 << 57));
    let _ = g.next(); // a7a8=Q, cursor now mid-way
    g.set_mask(BitBoard::from_pos(Pos::B8));
    let first = g.next();
    assert!(matches!(first, Some(ChessMove { dest: Pos::B8, piece: Some(PromotionPiece::Queen), .. })), "VERIF K2: after set_mask the first promotion to b8 is {:?}, not b8=Q", first);
}

// ---------------------------------------------------------------- observers built on the iterator: state(), is_legal()
/// Whether the position has a legal move is a property of the position, not of the call: the harness fixes it
/// nondeterministically up front (ghost oracle) and the contract abstraction of Board::legals returns an arbitrary
/// well-formed iterator that agrees with the oracle. (An earlier version derived the oracle inside the stub; a
/// state() that skipped the call then went unnoticed — found by a seeded change, see DESIGN 11.6.)
static mut ORACLE_NO_MOVES: bool = false;
fn legals_any_stub(_b: &crate::Board) -> MoveGen {
    let s = any_snap();
    kani::assume(wf(&s) && s.index == 0 && s.rem == 4);
    kani::assume((view_len(&s) == 0) == unsafe { ORACLE_NO_MOVES });
    gen_of(&s)
}

/// state(): CheckMate iff no legal move and in check; StaleMate (draw) iff no legal move and not in check, or
/// >= 100 half-moves; Check; Running — as a table over (legals empty, checkers non-empty, half-move clock)
#[kani::proof]
#[kani::unwind(20)]
#[kani::stub(crate::Board::legals, legals_any_stub)]
fn c03_state() {
    use crate::GameState;
    let b: crate::Board = kani::any();
    let empty: bool = kani::any();
    unsafe { ORACLE_NO_MOVES = empty };
    let st = b.state();
    let check = b.checkers.any();
    let want = if empty && check {
        GameState::CheckMate
    } else if empty || b.half_move_clock() >= 100 {
        GameState::StaleMate
    } else if check {
        GameState::Check
    } else {
        GameState::Running
    };
    assert!(st == want, "VERIF state() = {:?}, want {:?} (no legal move: {}, in check: {}, half-move clock {})", st, want, empty, check, b.half_move_clock());
}

/// small iterator for the is_legal loop (bounded: at most 2 entries with at most 3 destinations each)
fn legals_small_stub(_b: &crate::Board) -> MoveGen {
    let mut moves = MoveList::default();
    let n: usize = kani::any();
    kani::assume(n <= 2);
    let mut i = 0;
    while i < 2 {
        if i < n {
            let m: BitBoard = kani::any();
            kani::assume(m.any() && m.to_u64().count_ones() <= 3);
            moves.push(LegalMovesAt { src: kani::any(), moves: m, promotion: false });
        }
        i += 1;
    }
    let g = MoveGen { moves, promotions: PROMOTION_PIECES.iter(), mask: !BitBoard::empty(), index: 0 };
    unsafe { SMALL = Some(snap(&g)) };
    g
}
static mut SMALL: Option<Snap> = None;
/// is_legal(mv) <=> mv is one of the moves legals() yields (bounded: <= 6 moves)
#[kani::proof]
#[kani::unwind(20)]
#[kani::stub(crate::Board::legals, legals_small_stub)]
fn c01_is_legal() {
    let b: crate::Board = kani::any();
    let q = any_q();
    let mv = move_of(q);
    let r = b.is_legal(mv);
    let s = unsafe { SMALL.unwrap() };
    assert!(r == in_view(&s, q), "VERIF is_legal({:?}) = {} disagrees with the move list", mv, r);
}

/// C07: the move list has at least the 18 slots the counting lemma needs (<= 16 pieces + <= 2 en-passant entries)
#[kani::proof]
fn c07_capacity() {
    let l = MoveList::default();
    assert!(l.capacity() >= 18, "VERIF move list capacity {} < 18 = 16 pieces + 2 en-passant capturers", l.capacity());
    assert!(PROMOTION_PIECES.len() == 4, "VERIF promotion piece table");
}

/// C10 construction: Board::legals / legals_masked wrap an entry list in which every entry is non-empty and lies
/// inside the mask, except that the LAST entry (the king's) may carry castling destinations outside the mask
/// (established by C01's `well_shaped` clauses). Such an iterator satisfies the structural invariant wf, and its view
/// is exactly the pending moves with destination in the mask.
#[kani::proof]
#[kani::unwind(20)]
fn c10_ctor() {
    use cap18 as m;
    let mut s = m::any_snap();
    s.index = 0;
    s.rem = 4;
    let mut i = 0;
    while i < m::CAP {
        if i < s.n {
            kani::assume(s.moves[i] != 0);
            kani::assume(s.moves[i] & !s.mask == 0 || i + 1 == s.n);
        }
        i += 1;
    }
    assert!(m::wf(&s), "VERIF a freshly generated iterator violates the structural invariant");
    let q = m::any_q();
    assert!(m::in_view(&s, q) == (m::in_pending(&s, q) && s.mask & m::bit(q.dst) != 0), "VERIF view of a fresh iterator != pending restricted to the mask");
}
