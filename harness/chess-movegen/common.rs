//! Shared harness support inside chess-movegen: the abstraction function `view` from the real `Board`
//! to the specification position, symbolic-board generators, and the representation invariant (DESIGN 4).
#![allow(dead_code)]
pub use crate::verif_geom as g;
pub use crate::verif_rules as r;
use crate::castle_rights::CastleRights;
use crate::raw::RawBoard;
use crate::{Board, ChessMove, OptionalFile};
use chess_bitboard::{BitBoard, Color, File, Piece, Pos, PromotionPiece, Side};

pub fn col(c: Color) -> u8 {
    match c {
        Color::White => g::WHITE,
        Color::Black => g::BLACK,
    }
}
pub fn color_of(c: u8) -> Color {
    if c == g::WHITE {
        Color::White
    } else {
        Color::Black
    }
}
pub fn pc(p: Piece) -> u8 {
    match p {
        Piece::Pawn => r::PAWN,
        Piece::Knight => r::KNIGHT,
        Piece::Bishop => r::BISHOP,
        Piece::Rook => r::ROOK,
        Piece::Queen => r::QUEEN,
        Piece::King => r::KING,
    }
}
pub fn rights_bits(cr: CastleRights) -> u8 {
    (if cr.contains(Side::King, Color::White) { r::R_WK } else { 0 })
        | (if cr.contains(Side::Queen, Color::White) { r::R_WQ } else { 0 })
        | (if cr.contains(Side::King, Color::Black) { r::R_BK } else { 0 })
        | (if cr.contains(Side::Queen, Color::Black) { r::R_BQ } else { 0 })
}
pub fn rights_from_bits(bits: u8) -> CastleRights {
    let mut cr = CastleRights::empty();
    if bits & r::R_WK != 0 {
        cr = cr.with(Side::King, Color::White);
    }
    if bits & r::R_WQ != 0 {
        cr = cr.with(Side::Queen, Color::White);
    }
    if bits & r::R_BK != 0 {
        cr = cr.with(Side::King, Color::Black);
    }
    if bits & r::R_BQ != 0 {
        cr = cr.with(Side::Queen, Color::Black);
    }
    cr
}

/// abstraction function: the position a Board denotes, read field by field
pub fn view(b: &Board) -> r::P {
    r::P {
        col: [b.raw[Color::White].to_u64(), b.raw[Color::Black].to_u64()],
        pcs: [
            b.raw[Piece::Pawn].to_u64(),
            b.raw[Piece::Knight].to_u64(),
            b.raw[Piece::Bishop].to_u64(),
            b.raw[Piece::Rook].to_u64(),
            b.raw[Piece::Queen].to_u64(),
            b.raw[Piece::King].to_u64(),
        ],
        turn: col(b.turn),
        rights: rights_bits(b.castle_rights),
        ep: match b.ep() {
            Some(f) => f as u8,
            None => r::NO_EP,
        },
        half: b.half_move_clock,
        full: b.full_move_clock,
    }
}

pub fn mv_of(m: ChessMove) -> r::Mv {
    r::Mv {
        src: m.source as u8,
        dst: m.dest as u8,
        promo: match m.piece {
            None => 0,
            Some(PromotionPiece::Knight) => r::KNIGHT,
            Some(PromotionPiece::Bishop) => r::BISHOP,
            Some(PromotionPiece::Rook) => r::ROOK,
            Some(PromotionPiece::Queen) => r::QUEEN,
        },
    }
}
pub fn any_move() -> ChessMove {
    let t: u8 = kani::any();
    kani::assume(t < 5);
    ChessMove {
        source: kani::any(),
        dest: kani::any(),
        piece: match t {
            0 => None,
            1 => Some(PromotionPiece::Knight),
            2 => Some(PromotionPiece::Bishop),
            3 => Some(PromotionPiece::Rook),
            _ => Some(PromotionPiece::Queen),
        },
    }
}

/// an arbitrary well-formed placement: six pairwise disjoint piece sets, each square white or black
pub fn any_raw() -> RawBoard {
    let s: [u64; 6] = kani::any();
    let w: u64 = kani::any();
    kani::assume(s[0] & s[1] == 0 && (s[0] | s[1]) & s[2] == 0 && (s[0] | s[1] | s[2]) & s[3] == 0);
    kani::assume((s[0] | s[1] | s[2] | s[3]) & s[4] == 0 && (s[0] | s[1] | s[2] | s[3] | s[4]) & s[5] == 0);
    let mut raw = RawBoard::empty();
    let pieces = [Piece::Pawn, Piece::Knight, Piece::Bishop, Piece::Rook, Piece::Queen, Piece::King];
    let mut i = 0;
    while i < 6 {
        raw.xor(Color::White, pieces[i], BitBoard::from_u64(s[i] & w));
        raw.xor(Color::Black, pieces[i], BitBoard::from_u64(s[i] & !w));
        i += 1;
    }
    raw
}
pub fn any_opt_file() -> OptionalFile {
    let f: u8 = kani::any();
    kani::assume(f <= 8);
    if f == 8 {
        OptionalFile::None
    } else {
        OptionalFile::from(File::from_u8(f))
    }
}
/// a Board whose every field is arbitrary except that `raw` is a well-formed placement and the
/// castling nibble is in range (the type invariants every constructor establishes)
pub fn any_board() -> Board {
    let bits: u8 = kani::any();
    kani::assume(bits < 16);
    Board {
        zobrist: kani::any(),
        turn: kani::any(),
        castle_rights: rights_from_bits(bits),
        enpassant_target: any_opt_file(),
        half_move_clock: kani::any(),
        full_move_clock: kani::any(),
        pinned: kani::any(),
        checkers: kani::any(),
        raw: any_raw(),
    }
}
/// the xor of the keys of all pieces on the board, from scratch (64-step fold; unwind 65)
pub fn piece_hash_spec(b: &Board) -> u64 {
    let mut h = 0u64;
    let mut i = 0u8;
    while i < 64 {
        let pos = Pos::from_u8(i).unwrap();
        if let Some((c, p)) = b.raw.get(pos) {
            h ^= chess_lookup::zobrist(pos, p, c);
        }
        i += 1;
    }
    h
}
/// cached derived data agrees with the from-scratch specification at square q
/// (for a nondeterministic q this is set equality of both cached sets)
pub fn caches_ok_at(b: &Board, q: u8) -> bool {
    let p = view(b);
    g::has(b.checkers.to_u64(), q) == r::is_checker(&p, q) && g::has(b.pinned.to_u64(), q) == r::is_pinned(&p, q)
}

impl kani::Arbitrary for Board {
    fn any() -> Self {
        any_board()
    }
}

/// xor of the keys of the (at most two) squares of `diff` for (piece, color)
pub fn keys_of(diff: BitBoard, piece: Piece, color: Color) -> u64 {
    // plain u64 arithmetic: BitBoard::pop may be stubbed (one-shot abstraction) in the calling harness
    let mut d = diff.to_u64();
    let mut h = 0u64;
    if d != 0 {
        let a = d.trailing_zeros() as u8;
        d &= d - 1;
        h ^= chess_lookup::zobrist(Pos::from_u8(a).unwrap(), piece, color);
    }
    if d != 0 {
        let b = d.trailing_zeros() as u8;
        h ^= chess_lookup::zobrist(Pos::from_u8(b).unwrap(), piece, color);
    }
    h
}
/// all fields except raw and zobrist are equal
pub fn same_but_placement(a: &Board, b: &Board) -> bool {
    a.turn == b.turn
        && a.castle_rights == b.castle_rights
        && a.enpassant_target == b.enpassant_target
        && a.half_move_clock == b.half_move_clock
        && a.full_move_clock == b.full_move_clock
        && a.pinned == b.pinned
        && a.checkers == b.checkers
}
/// postcondition of Board::xor(color, piece, diff) for |diff| <= 2 (every call site in make-move)
pub fn xor_post(old: &Board, new: &Board, color: Color, piece: Piece, diff: BitBoard) -> bool {
    let (po, pn) = (view(old), view(new));
    let d = diff.to_u64();
    let c = col(color) as usize;
    let k = pc(piece) as usize;
    let mut ok = pn.col[c] == po.col[c] ^ d && pn.col[1 - c] == po.col[1 - c];
    let mut i = 0;
    while i < 6 {
        ok = ok && pn.pcs[i] == if i == k { po.pcs[i] ^ d } else { po.pcs[i] };
        i += 1;
    }
    ok && new.zobrist == old.zobrist ^ keys_of(diff, piece, color) && same_but_placement(old, new)
}

/// element-wise equality of two views (array `==` on [u64; N] compiles to a byte-wise memcmp loop)
pub fn same_view(a: &r::P, b: &r::P) -> bool {
    a.col[0] == b.col[0]
        && a.col[1] == b.col[1]
        && a.pcs[0] == b.pcs[0]
        && a.pcs[1] == b.pcs[1]
        && a.pcs[2] == b.pcs[2]
        && a.pcs[3] == b.pcs[3]
        && a.pcs[4] == b.pcs[4]
        && a.pcs[5] == b.pcs[5]
        && a.turn == b.turn
        && a.rights == b.rights
        && a.ep == b.ep
        && a.half == b.half
        && a.full == b.full
}
/// A board whose eight sets are NOT required to form a placement: make-move passes through such states (after the
/// mover has been toggled onto a capture square and before the captured piece is toggled off, two piece sets
/// overlap). Every state reachable by Board::xor from a placement satisfies colours-xor == pieces-xor, which is all
/// this generator imposes (twelve arbitrary toggles).
pub fn any_board_loose() -> Board {
    let mut b = any_board();
    let d: [u64; 12] = kani::any();
    let pieces = [Piece::Pawn, Piece::Knight, Piece::Bishop, Piece::Rook, Piece::Queen, Piece::King];
    let mut i = 0;
    while i < 6 {
        b.raw.xor(Color::White, pieces[i], BitBoard::from_u64(d[i]));
        b.raw.xor(Color::Black, pieces[i], BitBoard::from_u64(d[6 + i]));
        i += 1;
    }
    b
}
/// Contract abstraction of Board::xor for use with #[kani::stub(Board::xor, xor_contract_stub)]:
/// assert the precondition, havoc the board, assume the postcondition — exactly what stub_verified does.
/// The contract itself is discharged on the real body by obligation C04.xor. (Kani's `modifies`
/// instrumentation of an attribute contract on this method ran out of memory, so the abstraction is
/// instantiated by hand.)
pub fn xor_contract_stub(b: &mut Board, color: Color, piece: Piece, diff: BitBoard) {
    assert!(diff.count() <= 2, "VERIF Board::xor called with more than two squares");
    let old = *b;
    // NOT any_board(): intermediate states of make-move are not placements (see any_board_loose)
    *b = any_board_loose();
    kani::assume(xor_post(&old, b, color, piece, diff));
}

// ---------------------------------------------------------------- foreach-loop proofs: one-shot iterator abstraction
/// ghost record of what the loops ranged over: the set handed to the first `pop` of each loop and the
/// member chosen
pub static mut POPS: [u8; 4] = [64; 4];
pub static mut POP_SETS: [u64; 4] = [0; 4];
pub static mut NPOPS: usize = 0;
/// One-shot abstraction of BitBoard::pop (the only thing BitBoardIter::next calls): on a non-empty set
/// return an ARBITRARY member and leave the set empty, so `for x in set { body }` executes `body` exactly
/// once for an arbitrary member (or not at all). The real iterator is verified separately (C18.iter.next).
/// members the harness pre-selected for the k-th loop (64 = no pre-selection). A pre-selected member is itself a
/// nondeterministic square, so the loop body still runs for an arbitrary member; pre-selection lets the harness
/// state assumptions about that member (e.g. its cached pin flag equals the spec) BEFORE the call.
pub static mut PRESELECT: [u8; 4] = [64; 4];
pub fn preselect(k: usize, sq: u8) {
    unsafe { PRESELECT[k] = sq };
}
pub fn pop_one_shot(bb: &mut BitBoard) -> Option<Pos> {
    if bb.none() {
        return None;
    }
    let p: Pos = kani::any();
    kani::assume(bb.contains(p));
    unsafe {
        if NPOPS < 4 && PRESELECT[NPOPS] < 64 {
            kani::assume(p as u8 == PRESELECT[NPOPS]);
        }
    }
    unsafe {
        if NPOPS < 4 {
            POPS[NPOPS] = p as u8;
            POP_SETS[NPOPS] = bb.to_u64();
        }
        NPOPS += 1;
    }
    *bb = BitBoard::empty();
    Some(p)
}
pub fn npops() -> usize {
    unsafe { NPOPS }
}
pub fn popped(k: usize) -> u8 {
    unsafe { POPS[k] }
}
pub fn pop_set(k: usize) -> u64 {
    unsafe { POP_SETS[k] }
}

/// contract of Board::is_legal_king_position (discharged on the real body by C01.king_position):
/// dest is not attacked by the opponent once the mover's king is lifted off the board
pub fn king_position_spec(p: &r::P, dest: u8) -> bool {
    let lifted = r::occ(p) & !g::bit(r::king_of(p, p.turn));
    !r::attacked_with(p, dest, 1 - p.turn, lifted, 0)
}
/// contract abstraction for use with #[kani::stub(Board::is_legal_king_position, king_position_contract_stub)]
pub fn king_position_contract_stub(b: &Board, dest: Pos) -> bool {
    king_position_spec(&view(b), dest as u8)
}
