//! C01 — generated moves are exactly the legal moves. Hosted inside `iter::pieces` (private trait, structs,
//! check_mask). The per-type generator functions are verified against make-move-and-test-the-king legality
//! (spec/rules.rs) as a foreach-loop proof (DESIGN section 5 C01):
//!   .body  : BitBoard::pop replaced by its one-shot abstraction (returns an ARBITRARY member, empties the
//!            set) => each piece loop runs its body once for an arbitrary member of an arbitrary board; the
//!            entry pushed for that member is exactly (src, legal destinations & mask), nothing when empty
//!   .loop2 : the real iterator, mover restricted to <= 2 pieces of the type (bounded): iterations do not interfere
//!   C18.iter.next : the real BitBoardIter yields every member once
use super::*;
use crate::iter::MoveList;
use crate::kani_verif_common::*;
use crate::{Board, ChessMove};
use chess_bitboard::{BitBoard, Color, Piece, Pos};

/// a board satisfying the representation invariant (DESIGN 4): valid position, cached sets == spec (set forms)
fn inv_board(checkers: u32) -> (Board, r::P) {
    let b = any_board();
    let p = view(&b);
    kani::assume(r::one_king_each(&p) && r::at_most_16(&p) && r::rights_ok(&p) && r::ep_ok(&p));
    kani::assume(r::opponent_not_in_check(&p));
    kani::assume(p.pcs[r::PAWN as usize] & (g::rank_set(0) | g::rank_set(7)) == 0);
    kani::assume(b.checkers.to_u64() == r::checkers_spec(&p));
    kani::assume(b.pinned.to_u64() == r::pinned_spec(&p));
    kani::assume(b.checkers.to_u64().count_ones() == checkers);
    (b, p)
}
/// The same invariant with the cheapest sufficient assumptions for a foreach-loop BODY obligation:
///  * the cached pin flag is assumed correct only at the (nondeterministic, pre-selected) members the loops will
///    pick — the body reads `pinned` only through the loop ranges;
///  * "side not to move not in check" is used in the form "kings are not adjacent" plus the query restriction
///    "destination is not the enemy king's square" (under the invariant no piece of the mover attacks the enemy king,
///    so no such move is pseudo-legal; generator and spec both exclude it).
fn inv_board_body(checkers: u32, nsel: usize) -> (Board, r::P, [u8; 3]) {
    let b = any_board();
    let p = view(&b);
    kani::assume(r::one_king_each(&p) && r::at_most_16(&p) && r::rights_ok(&p) && r::ep_ok(&p));
    kani::assume(!g::has(g::king_att(r::king_of(&p, 0)), r::king_of(&p, 1)));
    kani::assume(p.pcs[r::PAWN as usize] & (g::rank_set(0) | g::rank_set(7)) == 0);
    kani::assume(b.checkers.to_u64() == r::checkers_spec(&p));
    kani::assume(b.checkers.to_u64().count_ones() == checkers);
    let sel: [u8; 3] = kani::any();
    let mut k = 0;
    while k < 3 {
        if k < nsel {
            kani::assume(sel[k] < 64);
            kani::assume(g::has(b.pinned.to_u64(), sel[k]) == r::is_pinned(&p, sel[k]));
            preselect(k, sel[k]);
        }
        k += 1;
    }
    (b, p, sel)
}
/// the destination the current obligation asks about (ghost; set by the harness before the call)
static mut QUERY_D: u8 = 64;
/// Contract abstractions of the slider lookups, WEAKENED to the queried destination: the result is arbitrary except
/// that its bit QUERY_D is what the (C08-verified) contract says. Implied by the full contract
/// `result == ray casting`, so using it at a call site is sound; it keeps one line walk in the query instead of four.
fn rook_moves_query_stub(pos: Pos, all: BitBoard) -> BitBoard {
    let r: BitBoard = kani::any();
    let d = unsafe { QUERY_D };
    kani::assume(r.contains(Pos::from_u8(d).unwrap()) == r::slider_reaches(pos as u8, d, all.to_u64(), false, true));
    r
}
fn bishop_moves_query_stub(pos: Pos, all: BitBoard) -> BitBoard {
    let r: BitBoard = kani::any();
    let d = unsafe { QUERY_D };
    kani::assume(r.contains(Pos::from_u8(d).unwrap()) == r::slider_reaches(pos as u8, d, all.to_u64(), true, false));
    r
}
/// full contract abstractions (result == ray casting; discharged by C08.* / C09.line) for callers that need whole sets
fn rook_moves_contract_stub(pos: Pos, all: BitBoard) -> BitBoard {
    let r: BitBoard = kani::any();
    kani::assume(r.to_u64() == g::rook_att(pos as u8, all.to_u64()));
    r
}
fn bishop_moves_contract_stub(pos: Pos, all: BitBoard) -> BitBoard {
    let r: BitBoard = kani::any();
    kani::assume(r.to_u64() == g::bishop_att(pos as u8, all.to_u64()));
    r
}
fn line_contract_stub(a: Pos, b: Pos) -> BitBoard {
    let r: BitBoard = kani::any();
    kani::assume(r.to_u64() == g::line_spec(a as u8, b as u8));
    r
}
/// the same for `line(src, king)`: only membership of QUERY_D matters
fn line_query_stub(a: Pos, b: Pos) -> BitBoard {
    let r: BitBoard = kani::any();
    let d = unsafe { QUERY_D };
    kani::assume(r.contains(Pos::from_u8(d).unwrap()) == g::has(g::line_spec(a as u8, b as u8), d));
    r
}
fn entry_count(list: &MoveList, src: u8, d: u8) -> usize {
    let mut n = 0;
    let mut i = 0;
    while i < list.len() {
        if list[i].src as u8 == src && list[i].moves.contains(Pos::from_u8(d).unwrap()) {
            n += 1;
        }
        i += 1;
    }
    n
}
fn well_shaped(list: &MoveList, own: u64, piece_set: u64, mask: BitBoard) -> bool {
    let mut i = 0;
    while i < list.len() {
        let e = &list[i];
        if e.moves.none() || (e.moves - mask).any() || !g::has(own & piece_set, e.src as u8) {
            return false;
        }
        i += 1;
    }
    true
}

macro_rules! piece_body {
    ($name:ident, $ty:ty, $pc:expr, $check:expr, $nchk:expr) => {
        #[kani::proof]
        #[kani::unwind(9)]
        #[kani::stub(chess_bitboard::BitBoard::pop, pop_one_shot)]
        #[kani::stub(chess_lookup::rook_moves, rook_moves_query_stub)]
        #[kani::stub(chess_lookup::bishop_moves, bishop_moves_query_stub)]
        #[kani::stub(chess_lookup::line, line_query_stub)]
        #[kani::stub_verified(chess_lookup::between)]
        #[kani::stub_verified(chess_lookup::knight_moves)]
        fn $name() {
            let (b, p, _sel) = inv_board_body($nchk, 2);
            let user_mask: BitBoard = kani::any();
            let own = p.col[p.turn as usize];
            let mask = !b.raw[b.turn] & user_mask;
            // the queried destination (every square except the enemy king's, see inv_board_body)
            let d: u8 = kani::any();
            kani::assume(d < 64 && d != r::king_of(&p, 1 - p.turn));
            unsafe { QUERY_D = d };
            let mut list = MoveList::default();
            <$ty as PieceType>::legals::<{ $check }>(&mut list, &b, mask);
            let n = npops();
            assert!(n <= 2 && list.len() <= n, "VERIF more entries than loop bodies executed");
            assert!(well_shaped(&list, own, p.pcs[$pc as usize], mask), "VERIF entry empty, outside the mask, or not for an own piece of this type");
            // for a nondeterministically chosen one of the members the loops picked:
            let k: usize = kani::any();
            kani::assume(k < n && k < 2);
            let s = popped(k);
            assert!(g::has(own & p.pcs[$pc as usize], s), "VERIF loop ranges over a foreign square");
            let want = r::legal(&p, r::Mv { src: s, dst: d, promo: 0 }) && mask.contains(Pos::from_u8(d).unwrap());
            let got = entry_count(&list, s, d);
            assert!(got == if want { 1 } else { 0 }, "VERIF piece {} {}->{} on [{}]: generated {} times, legal&&masked = {}", $pc, s, d, b, got, want);
            kani::cover!(want && g::has(r::occ(&p), d), "reach: a legal capture was generated");
            // (an unpinned knight of a side that is not in check has no pseudo-legal illegal move, and pinned knights are never reached)
            kani::cover!((!want && r::pattern_ok(&p, r::Mv { src: s, dst: d, promo: 0 }) && mask.contains(Pos::from_u8(d).unwrap())) || ($pc == r::KNIGHT && !$check), "reach: a pseudo-legal but illegal move was withheld");
        }
    };
}
piece_body!(c01_knight_nocheck_body, Knight, r::KNIGHT, false, 0);
piece_body!(c01_knight_check_body, Knight, r::KNIGHT, true, 1);
piece_body!(c01_bishop_nocheck_body, Bishop, r::BISHOP, false, 0);
piece_body!(c01_bishop_check_body, Bishop, r::BISHOP, true, 1);
piece_body!(c01_rook_nocheck_body, Rook, r::ROOK, false, 0);
piece_body!(c01_rook_check_body, Rook, r::ROOK, true, 1);
piece_body!(c01_queen_nocheck_body, Queen, r::QUEEN, false, 0);
piece_body!(c01_queen_check_body, Queen, r::QUEEN, true, 1);

/// the loops of `legals` range over all own pieces of the type: (pieces & !pinned) then (pieces & pinned);
/// a piece the loops never reach has no legal move (pinned knight; any pinned piece while in check)
macro_rules! piece_skipped {
    ($name:ident, $pc:expr, $nchk:expr, $can_move_if_pinned:expr) => {
        #[kani::proof]
        #[kani::unwind(9)]
        fn $name() {
            let (b, p) = inv_board($nchk);
            let s: u8 = kani::any();
            let d: u8 = kani::any();
            kani::assume(s < 64 && d < 64);
            kani::assume(g::has(p.col[p.turn as usize] & p.pcs[$pc as usize], s));
            // second loop is skipped when in check or for knights: then a pinned piece must have no legal move
            if g::has(b.pinned.to_u64(), s) && ($nchk > 0 || !$can_move_if_pinned) {
                assert!(!r::legal(&p, r::Mv { src: s, dst: d, promo: 0 }), "VERIF skipped pinned piece on {} has the legal move to {}", s, d);
            }
        }
    };
}
piece_skipped!(c01_knight_skipped, r::KNIGHT, 0, false);
piece_skipped!(c01_slider_skipped_b, r::BISHOP, 1, true);
piece_skipped!(c01_slider_skipped_r, r::ROOK, 1, true);
piece_skipped!(c01_slider_skipped_q, r::QUEEN, 1, true);
piece_skipped!(c01_pawn_skipped, r::PAWN, 1, true);

macro_rules! pawn_body {
    ($name:ident, $check:expr, $nchk:expr) => {
        #[kani::proof]
        #[kani::unwind(9)]
        #[kani::stub(chess_bitboard::BitBoard::pop, pop_one_shot)]
        #[kani::stub_verified(chess_lookup::between)]
        #[kani::stub(chess_lookup::line, line_query_stub)]
        #[kani::stub_verified(chess_lookup::pawn_moves)]
        #[kani::stub(chess_lookup::rook_moves, rook_moves_contract_stub)]
        #[kani::stub(chess_lookup::bishop_moves, bishop_moves_contract_stub)]
        fn $name() {
            let (b, p, _sel) = inv_board_body($nchk, 3);
            let user_mask: BitBoard = kani::any();
            let own = p.col[p.turn as usize];
            let mask = !b.raw[b.turn] & user_mask;
            let d: u8 = kani::any();
            kani::assume(d < 64 && d != r::king_of(&p, 1 - p.turn));
            unsafe { QUERY_D = d };
            let mut list = MoveList::default();
            <Pawn as PieceType>::legals::<{ $check }>(&mut list, &b, mask);
            let n = npops();
            assert!(n <= 3 && list.len() <= n, "VERIF more entries than loop bodies executed");
            assert!(well_shaped(&list, own, p.pcs[r::PAWN as usize], mask), "VERIF pawn entry empty, outside the mask, or not for an own pawn");
            let seventh = if p.turn == g::WHITE { 6 } else { 1 };
            let promo_q: u8 = kani::any();
            kani::assume(promo_q >= r::KNIGHT && promo_q <= r::QUEEN);
            // for a nondeterministically chosen one of the members the (up to three) loops picked:
            let k: usize = kani::any();
            kani::assume(k < n && k < 3);
            let s = popped(k);
            // which loop picked it: the en-passant loop is the last one; the first two run iff their ranges are non-empty
            let pawns = own & p.pcs[r::PAWN as usize];
            let ordinary_loops = (if pawns & !b.pinned.to_u64() != 0 { 1 } else { 0 }) + (if !$check && pawns & b.pinned.to_u64() != 0 { 1 } else { 0 });
            let ep_dest = if p.ep == r::NO_EP { 64 } else { g::sq_of(p.ep, if p.turn == g::WHITE { 5 } else { 2 }) };
            if k >= ordinary_loops {
                // the e.p. loop accounts for the e.p. capture of its member only
                kani::assume(d == ep_dest);
            } else {
                // the ordinary loops account for every move of their member except the e.p. capture
                kani::assume(d != ep_dest);
            }
            let promo = if g::rank_of(s) == seventh { promo_q } else { 0 };
            let want = r::legal(&p, r::Mv { src: s, dst: d, promo }) && mask.contains(Pos::from_u8(d).unwrap());
            let got = entry_count(&list, s, d);
            assert!(got == if want { 1 } else { 0 }, "VERIF pawn {}->{} (promo {}) on [{}]: generated {} times, legal&&masked = {}", s, d, promo, b, got, want);
            kani::cover!(want && d == ep_dest, "reach: a legal en-passant capture was generated");
            kani::cover!(want && promo != 0, "reach: a legal promotion was generated");
            kani::cover!(!want && d == ep_dest && k >= ordinary_loops, "reach: an en-passant candidate was withheld");
            // promotion flag: exactly the entries of pawns on their seventh rank; the plain move of such a pawn is not legal
            let mut i = 0;
            while i < list.len() {
                assert!(list[i].promotion == (g::rank_of(list[i].src as u8) == seventh), "VERIF promotion flag of the entry for {}", list[i].src as u8);
                i += 1;
            }
        }
    };
}
pawn_body!(c01_pawn_nocheck_body, false, 0);
pawn_body!(c01_pawn_check_body, true, 1);

/// is_legal_king_position(dest) == dest is not attacked by the opponent once the mover's king is lifted
#[kani::proof]
#[kani::unwind(17)]
#[kani::stub_verified(chess_lookup::between)]
#[kani::stub_verified(chess_lookup::rook_rays)]
#[kani::stub_verified(chess_lookup::bishop_rays)]
#[kani::stub_verified(chess_lookup::knight_moves)]
#[kani::stub_verified(chess_lookup::king_moves)]
#[kani::stub_verified(chess_lookup::pawn_attacks_moves)]
fn c01_king_position() {
    let b = any_board();
    let p = view(&b);
    kani::assume(r::one_king_each(&p) && r::at_most_16(&p));
    let dest: Pos = kani::any();
    let got = b.is_legal_king_position(dest);
    let want = king_position_spec(&p, dest as u8);
    assert!(got == want, "VERIF is_legal_king_position({:?}) = {}", dest, got);
}
/// contract abstraction of is_legal_king_position WEAKENED to the squares the obligation asks about (bit mask
/// KING_QUERY): exact on those squares, arbitrary elsewhere. Implied by the full contract (C01.king_position).
static mut KING_QUERY: [u8; 4] = [64; 4];
static mut KING_ANSWER: [bool; 4] = [false; 4];
/// the harness evaluates the contract (attacked-square spec) ONCE per queried square before the call; the stub
/// only looks the answers up
fn king_query(p: &r::P, squares: [u8; 4]) {
    let mut i = 0;
    while i < 4 {
        unsafe {
            KING_QUERY[i] = squares[i];
            KING_ANSWER[i] = if squares[i] < 64 { king_position_spec(p, squares[i]) } else { false };
        }
        i += 1;
    }
}
fn king_position_query_stub(_b: &Board, dest: Pos) -> bool {
    let d = dest as u8;
    unsafe {
        if d == KING_QUERY[0] {
            KING_ANSWER[0]
        } else if d == KING_QUERY[1] {
            KING_ANSWER[1]
        } else if d == KING_QUERY[2] {
            KING_ANSWER[2]
        } else if d == KING_QUERY[3] {
            KING_ANSWER[3]
        } else {
            kani::any()
        }
    }
}
fn king_setup(in_check: bool) -> (Board, r::P, BitBoard) {
    let b = any_board();
    let p = view(&b);
    kani::assume(r::one_king_each(&p) && r::at_most_16(&p) && r::rights_ok(&p));
    kani::assume(!g::has(g::king_att(r::king_of(&p, 0)), r::king_of(&p, 1)));
    kani::assume(b.checkers.any() == r::in_check_spec(&p));
    kani::assume(b.checkers.any() == in_check);
    let user_mask: BitBoard = kani::any();
    (b, p, !b.raw[b.turn] & user_mask)
}
/// king steps (and, while in check, the absence of castling): for EVERY destination d that is not a castling
/// destination of a not-in-check king: (king, d) generated iff legal and masked
macro_rules! king_steps {
    ($name:ident, $check:expr) => {
        #[kani::proof]
        #[kani::unwind(10)]
        #[kani::stub(crate::Board::is_legal_king_position, king_position_query_stub)]
        #[kani::stub_verified(chess_lookup::king_moves)]
        fn $name() {
            let (b, p, mask) = king_setup($check);
            let k = r::king_of(&p, p.turn);
            let d: u8 = kani::any();
            kani::assume(d < 64 && d != r::king_of(&p, 1 - p.turn));
            let is_castle = (g::file_of(d) as i8 - g::file_of(k) as i8).abs() == 2 && g::rank_of(d) == g::rank_of(k);
            kani::assume($check || !is_castle);
            king_query(&p, [d, 64, 64, 64]);
            let mut list = MoveList::default();
            King::king_legals::<{ $check }>(&mut list, &b, b.turn, mask);
            let dp = Pos::from_u8(d).unwrap();
            assert!(list.len() <= 1, "VERIF more than one king entry");
            let want = r::legal(&p, r::Mv { src: k, dst: d, promo: 0 }) && mask.contains(dp);
            let got = list.len() == 1 && list[0].moves.contains(dp);
            assert!(got == want, "VERIF king {}->{} on [{}]: generated {} legal&&masked {}", k, d, b, got, want);
            kani::cover!(want, "reach: a legal king move was generated");
            kani::cover!(!want && g::has(g::king_att(k), d) && mask.contains(dp), "reach: a king step onto an attacked or own square was withheld");
            if list.len() == 1 {
                assert!(list[0].src as u8 == k && !list[0].promotion && list[0].moves.any(), "VERIF king entry shape");
            }
        }
    };
}
king_steps!(c01_king_nocheck, false);
king_steps!(c01_king_check, true);

/// castling (king not in check, all 16 rights values, both colours): (e1/e8 -> g or c file) generated iff the right
/// is present, the squares between king and rook are empty, and the king's square, the transit square and the
/// destination are not attacked (the spec decides the last by make-move as well). Castling destinations are not
/// masked by the generator (the iterator's mask filters them).
#[kani::proof]
#[kani::unwind(10)]
#[kani::stub(crate::Board::is_legal_king_position, king_position_query_stub)]
#[kani::stub_verified(chess_lookup::king_moves)]
fn c01_king_castle() {
    let (b, p, mask) = king_setup(false);
    let k = r::king_of(&p, p.turn);
    let d: u8 = kani::any();
    kani::assume(d < 64);
    kani::assume((g::file_of(d) as i8 - g::file_of(k) as i8).abs() == 2 && g::rank_of(d) == g::rank_of(k));
    // the generator consults the four squares c, d, f, g of the mover's back rank
    let hr = if p.turn == g::WHITE { 0 } else { 7 };
    king_query(&p, [g::sq_of(2, hr), g::sq_of(3, hr), g::sq_of(5, hr), g::sq_of(6, hr)]);
    let mut list = MoveList::default();
    King::king_legals::<false>(&mut list, &b, b.turn, mask);
    let dp = Pos::from_u8(d).unwrap();
    let want = r::legal(&p, r::Mv { src: k, dst: d, promo: 0 });
    let got = list.len() == 1 && list[0].moves.contains(dp);
    assert!(got == want, "VERIF castling {}->{} on [{}]: generated {} legal {}", k, d, b, got, want);
    kani::cover!(want && p.turn == g::BLACK, "reach: legal castling by Black");
    kani::cover!(!want && p.rights != 0, "reach: castling refused although a right is present");
}

/// check_mask: squares on which a non-king move resolves a single check: between(king, checker) + checker; everything when not in check
#[kani::proof]
#[kani::unwind(9)]
#[kani::stub_verified(chess_lookup::between)]
fn c01_check_mask() {
    let (b, p) = inv_board(1);
    let k = Pos::from_u8(r::king_of(&p, p.turn)).unwrap();
    let m = check_mask::<true>(&b, k);
    let c = b.checkers.to_u64().trailing_zeros() as u8;
    assert!(m.to_u64() == g::between_spec(k as u8, c) | g::bit(c), "VERIF check_mask in check");
    let (b0, p0) = inv_board(0);
    let k0 = Pos::from_u8(r::king_of(&p0, p0.turn)).unwrap();
    assert!(check_mask::<false>(&b0, k0).to_u64() == u64::MAX, "VERIF check_mask not in check");
}

#[kani::proof]
#[kani::unwind(9)]
fn c01_cover() {
    let (b, p) = inv_board(0);
    let s: u8 = kani::any();
    let d: u8 = kani::any();
    kani::assume(s < 64 && d < 64);
    let l = r::legal(&p, r::Mv { src: s, dst: d, promo: 0 });
    kani::cover!(l && g::has(b.pinned.to_u64(), s) && g::has(p.pcs[r::ROOK as usize], s));
    kani::cover!(l && g::has(p.pcs[r::PAWN as usize], s) && p.ep != r::NO_EP && g::file_of(d) == p.ep && g::file_of(s) != g::file_of(d) && !g::has(r::occ(&p), d));
    kani::cover!(l && g::has(p.pcs[r::KING as usize], s) && (g::file_of(d) as i8 - g::file_of(s) as i8).abs() == 2);
    kani::cover!(!l && g::has(b.pinned.to_u64(), s) && g::has(p.pcs[r::KNIGHT as usize] & p.col[p.turn as usize], s));
}

// ---------------------------------------------------------------- loop skeletons (bounded): real iterator, <= 2 pieces of the type
macro_rules! piece_loop2 {
    ($name:ident, $ty:ty, $pc:expr, $check:expr, $nchk:expr) => {
        #[kani::proof]
        #[kani::unwind(9)]
        #[kani::stub_verified(chess_lookup::between)]
        #[kani::stub(chess_lookup::line, line_contract_stub)]
        #[kani::stub_verified(chess_lookup::knight_moves)]
        #[kani::stub(chess_lookup::rook_moves, rook_moves_contract_stub)]
        #[kani::stub(chess_lookup::bishop_moves, bishop_moves_contract_stub)]
        fn $name() {
            let (b, p) = inv_board($nchk);
            let own = p.col[p.turn as usize];
            kani::assume((own & p.pcs[$pc as usize]).count_ones() <= 2);
            let user_mask: BitBoard = kani::any();
            let mask = !b.raw[b.turn] & user_mask;
            let mut list = MoveList::default();
            <$ty as PieceType>::legals::<{ $check }>(&mut list, &b, mask);
            assert!(list.len() <= 2 && well_shaped(&list, own, p.pcs[$pc as usize], mask), "VERIF entries malformed");
            let s: u8 = kani::any();
            let d: u8 = kani::any();
            kani::assume(s < 64 && d < 64 && g::has(own & p.pcs[$pc as usize], s));
            let want = r::legal(&p, r::Mv { src: s, dst: d, promo: 0 }) && mask.contains(Pos::from_u8(d).unwrap());
            let got = entry_count(&list, s, d);
            assert!(got == if want { 1 } else { 0 }, "VERIF {:?} {}->{}: generated {} times, legal&&masked = {} (real loop, <= 2 pieces)", $pc, s, d, got, want);
        }
    };
}
piece_loop2!(c01_knight_nocheck_loop2, Knight, r::KNIGHT, false, 0);
piece_loop2!(c01_knight_check_loop2, Knight, r::KNIGHT, true, 1);
piece_loop2!(c01_bishop_nocheck_loop2, Bishop, r::BISHOP, false, 0);
piece_loop2!(c01_rook_nocheck_loop2, Rook, r::ROOK, false, 0);
piece_loop2!(c01_queen_nocheck_loop2, Queen, r::QUEEN, false, 0);
piece_loop2!(c01_queen_check_loop2, Queen, r::QUEEN, true, 1);

// ---------------------------------------------------------------- dispatch (collect_moves): supporting lemma for double check
// (running the real collect_moves restricted to >= 2 checkers exhausted memory: all twelve generator instances are executed symbolically)
/// spec-only lemma: in double check only king moves are legal (so generating only king moves loses nothing)
#[kani::proof]
#[kani::unwind(9)]
fn c01_double_check_lemma() {
    let b = any_board();
    let p = view(&b);
    kani::assume(r::one_king_each(&p) && r::at_most_16(&p) && r::ep_ok(&p));
    kani::assume(r::checkers_spec(&p).count_ones() >= 2);
    let s: u8 = kani::any();
    let d: u8 = kani::any();
    let promo: u8 = kani::any();
    kani::assume(s < 64 && d < 64 && promo <= r::QUEEN && s != r::king_of(&p, p.turn));
    assert!(!r::legal(&p, r::Mv { src: s, dst: d, promo }), "VERIF lemma: a non-king move {}->{} is legal in double check", s, d);
}

// ---------------------------------------------------------------- dispatch in collect_moves
// Kani cannot stub generic functions in traits (`PieceType::legals::<C>`), so the dispatch is observed one level
// down: marker stubs for the NON-generic `pseudo_legals` of each piece type (which generator bodies ran), for the
// generic free function `check_mask::<C>` (with which IS_IN_CHECK constant) and for the inherent generic
// `King::king_legals::<C>`; the one-shot iterator makes each generator call its `pseudo_legals` once per loop.
static mut PL_CALLS: [u8; 5] = [0; 5];
static mut PL_MASK: u64 = 0;
static mut CM_CALLS: [u8; 2] = [0; 2];
static mut KING_CALLS: [u8; 2] = [0; 2];
fn pl(i: usize, mask: BitBoard) -> BitBoard {
    unsafe {
        PL_CALLS[i] += 1;
        PL_MASK = mask.to_u64();
    }
    BitBoard::empty()
}
fn pl_pawn(_s: Pos, _c: Color, _all: BitBoard, mask: BitBoard) -> BitBoard {
    pl(0, mask)
}
fn pl_knight(_s: Pos, _c: Color, _all: BitBoard, mask: BitBoard) -> BitBoard {
    pl(1, mask)
}
fn pl_bishop(_s: Pos, _c: Color, _all: BitBoard, mask: BitBoard) -> BitBoard {
    pl(2, mask)
}
fn pl_rook(_s: Pos, _c: Color, _all: BitBoard, mask: BitBoard) -> BitBoard {
    pl(3, mask)
}
fn pl_queen(_s: Pos, _c: Color, _all: BitBoard, mask: BitBoard) -> BitBoard {
    pl(4, mask)
}
fn check_mask_marker<const IS_IN_CHECK: bool>(_b: &Board, _k: Pos) -> BitBoard {
    unsafe { CM_CALLS[IS_IN_CHECK as usize] += 1 };
    !BitBoard::empty()
}
fn king_marker<const IS_IN_CHECK: bool>(_l: &mut MoveList, _b: &Board, _t: Color, mask: BitBoard) {
    unsafe {
        KING_CALLS[IS_IN_CHECK as usize] += 1;
        PL_MASK = mask.to_u64();
    }
}
/// collect_moves(mask): without a checker all six generators run as NO_CHECK; with one checker the five non-king
/// generators and the king run as IN_CHECK; with two or more only the king (IN_CHECK); each receives
/// `mask` minus the mover's own squares. (Observed on a board that has an unpinned piece of every kind.)
#[kani::proof]
#[kani::unwind(3)]
#[kani::stub(chess_bitboard::BitBoard::pop, pop_one_shot)]
#[kani::stub(<Pawn as PieceType>::pseudo_legals, pl_pawn)]
#[kani::stub(<Knight as PieceType>::pseudo_legals, pl_knight)]
#[kani::stub(<Bishop as PieceType>::pseudo_legals, pl_bishop)]
#[kani::stub(<Rook as PieceType>::pseudo_legals, pl_rook)]
#[kani::stub(<Queen as PieceType>::pseudo_legals, pl_queen)]
#[kani::stub(check_mask, check_mask_marker)]
#[kani::stub(King::king_legals, king_marker)]
fn c01_dispatch() {
    // loop-free board generator (the harness must not force a larger unwinding bound onto the twelve generator instances)
    let sets: [u64; 6] = kani::any();
    let w: u64 = kani::any();
    kani::assume(sets[0] & sets[1] == 0 && (sets[0] | sets[1]) & sets[2] == 0 && (sets[0] | sets[1] | sets[2]) & sets[3] == 0);
    kani::assume((sets[0] | sets[1] | sets[2] | sets[3]) & sets[4] == 0 && (sets[0] | sets[1] | sets[2] | sets[3] | sets[4]) & sets[5] == 0);
    let mut raw = crate::raw::RawBoard::empty();
    raw.xor(Color::White, Piece::Pawn, BitBoard::from_u64(sets[0] & w));
    raw.xor(Color::Black, Piece::Pawn, BitBoard::from_u64(sets[0] & !w));
    raw.xor(Color::White, Piece::Knight, BitBoard::from_u64(sets[1] & w));
    raw.xor(Color::Black, Piece::Knight, BitBoard::from_u64(sets[1] & !w));
    raw.xor(Color::White, Piece::Bishop, BitBoard::from_u64(sets[2] & w));
    raw.xor(Color::Black, Piece::Bishop, BitBoard::from_u64(sets[2] & !w));
    raw.xor(Color::White, Piece::Rook, BitBoard::from_u64(sets[3] & w));
    raw.xor(Color::Black, Piece::Rook, BitBoard::from_u64(sets[3] & !w));
    raw.xor(Color::White, Piece::Queen, BitBoard::from_u64(sets[4] & w));
    raw.xor(Color::Black, Piece::Queen, BitBoard::from_u64(sets[4] & !w));
    raw.xor(Color::White, Piece::King, BitBoard::from_u64(sets[5] & w));
    raw.xor(Color::Black, Piece::King, BitBoard::from_u64(sets[5] & !w));
    let b = Board { raw, pinned: kani::any(), checkers: kani::any(), turn: kani::any(), ..Board::standard() };
    let p = view(&b);
    kani::assume(r::one_king_each(&p));
    let own = p.col[p.turn as usize] & !b.pinned.to_u64();
    // an unpinned piece of every non-king kind, so that every generator that runs leaves a trace
    kani::assume(own & p.pcs[0] != 0 && own & p.pcs[1] != 0 && own & p.pcs[2] != 0 && own & p.pcs[3] != 0 && own & p.pcs[4] != 0);
    let mask: BitBoard = kani::any();
    let _ = b.collect_moves(mask);
    let n = b.checkers.count();
    let (pc, cm, kc, seen) = unsafe { (PL_CALLS, CM_CALLS, KING_CALLS, PL_MASK) };
    assert!((pc[0] >= 1) == (n <= 1), "VERIF dispatch: pawn generator ran = {} with {} checkers", pc[0], n);
    assert!((pc[1] >= 1) == (n <= 1), "VERIF dispatch: knight generator ran = {} with {} checkers", pc[1], n);
    assert!((pc[2] >= 1) == (n <= 1), "VERIF dispatch: bishop generator ran = {} with {} checkers", pc[2], n);
    assert!((pc[3] >= 1) == (n <= 1), "VERIF dispatch: rook generator ran = {} with {} checkers", pc[3], n);
    assert!((pc[4] >= 1) == (n <= 1), "VERIF dispatch: queen generator ran = {} with {} checkers", pc[4], n);
    assert!(cm[0] == (if n == 0 { 5 } else { 0 }) && cm[1] == (if n == 1 { 5 } else { 0 }), "VERIF dispatch: IS_IN_CHECK constants with {} checkers: NO_CHECK x{}, IN_CHECK x{}", n, cm[0], cm[1]);
    assert!(kc[0] == (if n == 0 { 1 } else { 0 }) && kc[1] == (if n >= 1 { 1 } else { 0 }), "VERIF dispatch: king generator with {} checkers", n);
    assert!(seen == mask.to_u64() & !p.col[p.turn as usize], "VERIF dispatch: generators do not receive mask minus own squares");
    kani::cover!(n == 0, "reach: no checker");
    kani::cover!(n == 1, "reach: one checker");
    kani::cover!(n >= 2, "reach: double check");
}
