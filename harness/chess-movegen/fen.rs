//! C05 (FEN text <-> board) and C06 (parser totality). Hosted inside `fen` (private helper parsers).
use super::*;
use crate::kani_verif_common::*;
use crate::verif_fen as f;
use crate::Board;
use chess_bitboard::{BitBoard, Color, Piece};

fn any_slice<const N: usize>(buf: &[u8; N]) -> &[u8] {
    let n: usize = kani::any();
    kani::assume(n <= N);
    &buf[..n]
}
/// `rest` is a suffix of `s` obtained by consuming exactly k leading bytes
fn consumed(s: &[u8], rest: &[u8], k: usize) -> bool {
    k <= s.len() && rest.len() == s.len() - k && rest.as_ptr() == s[k..].as_ptr()
}

// ---------------------------------------------------------------- helper parsers: total, consume what they say
/// parse_piece on ALL byte strings of length <= 3: letters -> (colour, piece), digits 1-8 -> run length, else untouched
#[kani::proof]
fn c06_parse_piece() {
    let buf: [u8; 3] = kani::any();
    let s = any_slice(&buf);
    let (out, rest) = parse_piece(s);
    if s.is_empty() {
        assert!(out.is_none() && consumed(s, rest, 0), "VERIF parse_piece on empty input");
        return;
    }
    let c = s[0];
    let want_piece = Piece::from_ascii_byte(c);
    match out {
        Some(Ok((color, piece))) => {
            assert!(want_piece == Some(piece), "VERIF parse_piece {:#x} -> {:?}", c, piece);
            assert!((color == Color::White) == c.is_ascii_uppercase(), "VERIF parse_piece colour of {:#x}", c);
            assert!(consumed(s, rest, 1), "VERIF parse_piece consumed");
        }
        Some(Err(run)) => assert!(c >= b'1' && c <= b'8' && run == c - b'0' && consumed(s, rest, 1), "VERIF parse_piece run length {:#x}", c),
        None => assert!(want_piece.is_none() && !(c >= b'1' && c <= b'8') && consumed(s, rest, 0), "VERIF parse_piece rejected {:#x}", c),
    }
}

/// parse_number on ALL byte strings of length <= 6: up to four leading digits, decimal value, None iff no digit;
/// never overflows
#[kani::proof]
#[kani::unwind(6)]
fn c06_parse_number() {
    let buf: [u8; 6] = kani::any();
    let s0 = any_slice(&buf);
    let mut s = s0;
    let r = parse_number(&mut s);
    let mut k = 0usize;
    let mut val = 0u32;
    while k < 4 && k < s0.len() && s0[k].is_ascii_digit() {
        val = val * 10 + (s0[k] - b'0') as u32;
        k += 1;
    }
    if k == 0 {
        assert!(r.is_none(), "VERIF parse_number without digits returned {:?}", r);
    } else {
        assert!(r == Some(val as u16), "VERIF parse_number {:?} -> {:?}, want {}", s0, r, val);
        assert!(consumed(s0, s, k), "VERIF parse_number consumed {} bytes", k);
    }
}

/// parse_whitespace / parse_dash / parse_castle_rights on ALL byte strings of length <= 5
#[kani::proof]
#[kani::unwind(7)]
fn c06_parse_small() {
    let buf: [u8; 5] = kani::any();
    let s = any_slice(&buf);
    let mut k = 0;
    while k < s.len() && s[k] == b' ' {
        k += 1;
    }
    match parse_whitespace(s, MissingWhitespace::Turn) {
        Ok(rest) => assert!(k > 0 && consumed(s, rest, k), "VERIF parse_whitespace consumed"),
        Err(e) => assert!(k == 0 && e == ParseFenError::MissingWhitespace(MissingWhitespace::Turn), "VERIF parse_whitespace error"),
    }
    match parse_dash(s) {
        Some(rest) => assert!(!s.is_empty() && s[0] == b'-' && consumed(s, rest, 1), "VERIF parse_dash"),
        None => assert!(s.is_empty() || s[0] != b'-', "VERIF parse_dash rejected '-'"),
    }
    let b: u8 = kani::any();
    let (hit, rest) = parse_castle_rights(s, b);
    assert!(hit == (!s.is_empty() && s[0] == b) && consumed(s, rest, if hit { 1 } else { 0 }), "VERIF parse_castle_rights");
}

// ---------------------------------------------------------------- parse_fen: totality (bounded)
macro_rules! total {
    ($name:ident, $n:expr, $unwind:expr) => {
        /// parse_fen on ALL byte strings of length <= N returns (no panic, overflow, out-of-bounds)
        #[kani::proof]
        #[kani::unwind($unwind)]
        fn $name() {
            let buf: [u8; $n] = kani::any();
            let s = any_slice(&buf);
            let r = parse_fen(s);
            // nothing this short is a position
            assert!(r.is_err(), "VERIF parse_fen accepted a {}-byte string", s.len());
        }
    };
}
total!(c06_total_4, 4, 18);
total!(c06_total_6, 6, 18);
total!(c06_total_8, 8, 18);

const PREFIX: &[u8] = b"r3k2r/8/8/pppppppp/PPPPPPPP/8/8/R3K2R";
const PREFIX_LEN: usize = 37;
const W_PAWNS: u64 = 0x0000_0000_ff00_0000;
const B_PAWNS: u64 = 0x0000_00ff_0000_0000;
fn prefix_placement_ok(p: &r::P) -> bool {
    p.col[0] == W_PAWNS | 0x91 && p.col[1] == B_PAWNS | 0x9100_0000_0000_0000 && p.pcs[r::PAWN as usize] == W_PAWNS | B_PAWNS
        && p.pcs[r::ROOK as usize] == 0x8100_0000_0000_0081 && p.pcs[r::KING as usize] == 0x1000_0000_0000_0010
        && p.pcs[r::KNIGHT as usize] == 0 && p.pcs[r::BISHOP as usize] == 0 && p.pcs[r::QUEEN as usize] == 0
}

/// after a concrete, valid placement field: ALL byte strings of length <= 7 for the remaining five fields.
/// No panic; whenever the parser accepts, the board passes validate() and its position is the one the text says.
#[kani::proof]
#[kani::unwind(48)]
fn c06_total_tail() {
    let tail: [u8; 7] = kani::any();
    let n: usize = kani::any();
    kani::assume(n <= 7);
    let mut buf = [0u8; PREFIX_LEN + 7];
    let mut i = 0;
    while i < PREFIX_LEN {
        buf[i] = PREFIX[i];
        i += 1;
    }
    let mut j = 0;
    while j < 7 {
        buf[PREFIX_LEN + j] = tail[j];
        j += 1;
    }
    match parse_fen(&buf[..PREFIX_LEN + n]) {
        Ok(b) => {
            assert!(prefix_placement_ok(&view(&b)), "VERIF parsed placement differs from the text");
            assert!(b.validate().is_ok(), "VERIF parse_fen returned a board that validate() rejects");
        }
        Err(_) => (),
    }
}

// ---------------------------------------------------------------- C05: parse(write(P)) on the five trailing fields
/// for EVERY side to move, castling-rights subset, en-passant file (or none) and clock pair 0..=9999:
/// parse_fen(placement ++ canonical tail text) returns a board with exactly these fields, the placement of the
/// text, hash field == from-scratch piece hash, cached sets == spec
#[kani::proof]
#[kani::unwind(66)]
fn c05_parse_tail() {
    let mut p = r::P { col: [W_PAWNS | 0x91, B_PAWNS | 0x9100_0000_0000_0000], pcs: [W_PAWNS | B_PAWNS, 0, 0, 0x8100_0000_0000_0081, 0, 0x1000_0000_0000_0010], turn: kani::any(), rights: kani::any(), ep: kani::any(), half: kani::any(), full: kani::any() };
    kani::assume(p.turn <= 1 && p.rights < 16 && p.ep <= 8 && p.half <= 9999 && p.full <= 9999);
    let mut o = f::Out::new();
    let mut i = 0;
    while i < PREFIX_LEN {
        o.put(PREFIX[i]);
        i += 1;
    }
    f::fen_tail(&p, &mut o);
    kani::assume(o.n <= f::FEN_MAX);
    let r = parse_fen(&o.b[..o.n]);
    match r {
        Ok(b) => {
            let got = view(&b);
            assert!(same_view(&got, &p), "VERIF parse(write(P)) != P: turn {} rights {} ep {} half {} full {}", p.turn, p.rights, p.ep, p.half, p.full);
            assert!(b.zobrist == piece_hash_spec(&b), "VERIF parsed hash field != from-scratch piece hash");
            assert!(b.checkers.to_u64() == r::checkers_spec(&got) && b.pinned.to_u64() == r::pinned_spec(&got), "VERIF parsed cached sets != spec");
        }
        Err(e) => assert!(false, "VERIF canonical FEN rejected: {:?} (turn {} rights {} ep {} half {} full {})", e, p.turn, p.rights, p.ep, p.half, p.full),
    }
}

/// one symbolic rank (any of ranks 2..7, every square empty or any of the 12 pieces), kings fixed on e1/e8:
/// parse_fen(canonical text) == Ok(board with exactly this placement) or a validation error when the position
/// is not playable; never a syntax error
#[kani::proof]
#[kani::unwind(66)]
fn c05_parse_rank() {
    let rank: u8 = kani::any();
    kani::assume(rank >= 1 && rank <= 6);
    let cells: [u8; 8] = kani::any();
    let mut p = r::P { col: [0x10, 0x1000_0000_0000_0000], pcs: [0, 0, 0, 0, 0, 0x1000_0000_0000_0010], turn: kani::any(), rights: 0, ep: r::NO_EP, half: 0, full: 1 };
    kani::assume(p.turn <= 1);
    let mut i = 0u8;
    while i < 8 {
        let c = cells[i as usize];
        kani::assume(c <= 12);
        if c > 0 {
            let sq = g::sq_of(i, rank);
            p.col[((c - 1) / 6) as usize] |= g::bit(sq);
            p.pcs[((c - 1) % 6) as usize] |= g::bit(sq);
        }
        i += 1;
    }
    let mut o = f::Out::new();
    f::fen_spec(&p, &mut o);
    kani::assume(o.n <= f::FEN_MAX);
    match parse_fen(&o.b[..o.n]) {
        Ok(b) => assert!(same_view(&view(&b), &p), "VERIF parse(write(P)) != P for rank {}", rank),
        Err(ParseFenError::BoardValidation(_)) => assert!(!r::playable(&p), "VERIF canonical FEN of a playable position rejected (rank {})", rank),
        Err(e) => assert!(false, "VERIF canonical FEN rejected with a syntax error {:?}", e),
    }
}

// ---------------------------------------------------------------- C05: write(P) == canonical text
struct Buf {
    b: [u8; f::FEN_MAX],
    n: usize,
}
impl core::fmt::Write for Buf {
    fn write_str(&mut self, s: &str) -> core::fmt::Result {
        for &c in s.as_bytes() {
            if self.n >= f::FEN_MAX {
                return Err(core::fmt::Error);
            }
            self.b[self.n] = c;
            self.n += 1;
        }
        Ok(())
    }
}
fn same_text(w: &Buf, o: &f::Out) -> bool {
    if w.n != o.n {
        return false;
    }
    let mut i = 0;
    let mut ok = true;
    while i < f::FEN_MAX {
        if i < w.n && w.b[i] != o.b[i] {
            ok = false;
        }
        i += 1;
    }
    ok
}
fn board_of(p: &r::P) -> Board {
    let mut raw = crate::raw::RawBoard::empty();
    let pieces = [Piece::Pawn, Piece::Knight, Piece::Bishop, Piece::Rook, Piece::Queen, Piece::King];
    let mut i = 0;
    while i < 6 {
        raw.xor(Color::White, pieces[i], BitBoard::from_u64(p.pcs[i] & p.col[0]));
        raw.xor(Color::Black, pieces[i], BitBoard::from_u64(p.pcs[i] & p.col[1]));
        i += 1;
    }
    Board {
        zobrist: kani::any(),
        turn: color_of(p.turn),
        castle_rights: rights_from_bits(p.rights),
        enpassant_target: if p.ep >= 8 { crate::OptionalFile::None } else { crate::OptionalFile::from(chess_bitboard::File::from_u8(p.ep)) },
        half_move_clock: p.half,
        full_move_clock: p.full,
        pinned: kani::any(),
        checkers: kani::any(),
        raw,
    }
}
/// Display of a board with the fixed placement and EVERY combination of the five trailing fields equals the
/// canonical text byte for byte (en-passant square on the capture rank: 6 with White to move, 3 with Black)
#[kani::proof]
#[kani::unwind(97)]
fn c05_write_tail() {
    use core::fmt::Write;
    let p = r::P { col: [W_PAWNS | 0x91, B_PAWNS | 0x9100_0000_0000_0000], pcs: [W_PAWNS | B_PAWNS, 0, 0, 0x8100_0000_0000_0081, 0, 0x1000_0000_0000_0010], turn: kani::any(), rights: kani::any(), ep: kani::any(), half: kani::any(), full: kani::any() };
    kani::assume(p.turn <= 1 && p.rights < 16 && p.ep <= 8);
    let b = board_of(&p);
    let mut w = Buf { b: [0; f::FEN_MAX], n: 0 };
    assert!(write!(w, "{}", b).is_ok(), "VERIF Display failed");
    let mut o = f::Out::new();
    f::fen_spec(&p, &mut o);
    assert!(same_text(&w, &o), "VERIF Display != canonical FEN: turn {} rights {} ep {} half {} full {}", p.turn, p.rights, p.ep, p.half, p.full);
}
/// Display with one symbolic rank (any rank, any content), the other ranks empty, equals the canonical text
#[kani::proof]
#[kani::unwind(97)]
fn c05_write_rank() {
    use core::fmt::Write;
    let rank: u8 = kani::any();
    kani::assume(rank <= 7);
    let cells: [u8; 8] = kani::any();
    let mut p = r::P { col: [0, 0], pcs: [0; 6], turn: 0, rights: 0, ep: r::NO_EP, half: 0, full: 1 };
    let mut i = 0u8;
    while i < 8 {
        let c = cells[i as usize];
        kani::assume(c <= 12);
        if c > 0 {
            let sq = g::sq_of(i, rank);
            p.col[((c - 1) / 6) as usize] |= g::bit(sq);
            p.pcs[((c - 1) % 6) as usize] |= g::bit(sq);
        }
        i += 1;
    }
    let b = board_of(&p);
    let mut w = Buf { b: [0; f::FEN_MAX], n: 0 };
    assert!(write!(w, "{}", b).is_ok(), "VERIF Display failed");
    let mut o = f::Out::new();
    f::fen_spec(&p, &mut o);
    assert!(same_text(&w, &o), "VERIF Display != canonical FEN for rank {}", rank);
}

/// constructors agree: Board::standard(), the builder fed with the standard placement, and the parser on the
/// standard FEN give field-for-field identical boards (ground)
#[kani::proof]
#[kani::unwind(66)]
fn c05_constructors() {
    let s = Board::standard();
    let parsed = parse_fen(b"rnbqkbnr/pppppppp/8/8/8/8/PPPPPPPP/RNBQKBNR w KQkq - 0 0");
    match parsed {
        Ok(b) => {
            assert!(same_view(&view(&b), &view(&s)) && b.zobrist == s.zobrist && b.pinned == s.pinned && b.checkers == s.checkers, "VERIF parser and standard() disagree");
        }
        Err(_) => assert!(false, "VERIF standard FEN rejected"),
    }
    let mut bb = Board::builder();
    let sv = view(&s);
    let mut i = 0u8;
    while i < 64 {
        if let Some(pc) = r::piece_at(&sv, i) {
            let c = if g::has(sv.col[0], i) { Color::White } else { Color::Black };
            let _ = bb.place(chess_bitboard::Pos::from_u8(i).unwrap(), c, Piece::from_u8(pc).unwrap());
        }
        i += 1;
    }
    bb.castle_rights(crate::castle_rights::CastleRights::full());
    match bb.build() {
        Ok(b) => assert!(same_view(&view(&b), &sv) && b.zobrist == s.zobrist && b.pinned == s.pinned && b.checkers == s.checkers, "VERIF builder and standard() disagree"),
        Err(_) => assert!(false, "VERIF builder rejected the standard position"),
    }
}

#[kani::proof]
#[kani::unwind(48)]
fn c06_fen_cover() {
    let tail: [u8; 7] = kani::any();
    let mut buf = [0u8; PREFIX_LEN + 7];
    let mut i = 0;
    while i < PREFIX_LEN {
        buf[i] = PREFIX[i];
        i += 1;
    }
    let mut j = 0;
    while j < 7 {
        buf[PREFIX_LEN + j] = tail[j];
        j += 1;
    }
    let r = parse_fen(&buf);
    kani::cover!(r.is_ok());
    kani::cover!(matches!(r, Err(ParseFenError::TrailingBytes)));
    kani::cover!(matches!(r, Err(ParseFenError::InvalidEnpassant { .. })));
}

// ---------------------------------------------------------------- cost experiments (not registered)
#[kani::proof]
#[kani::unwind(30)]
fn xp_ground() {
    let r = parse_fen(b"k7/8/8/8/8/8/8/K7 w - - 0 1");
    assert!(r.is_ok());
}
#[kani::proof]
#[kani::unwind(30)]
fn xp_last_digit() {
    let mut s = *b"k7/8/8/8/8/8/8/K7 w - - 0 1";
    s[26] = kani::any();
    let r = parse_fen(&s);
    assert!(r.is_ok() == s[26].is_ascii_digit());
}
#[kani::proof]
#[kani::unwind(5)]
fn xp_total_3() {
    let buf: [u8; 3] = kani::any();
    let s = any_slice(&buf);
    assert!(parse_fen(s).is_err());
}
#[kani::proof]
#[kani::unwind(6)]
fn xp_total_4_exact() {
    let buf: [u8; 4] = kani::any();
    assert!(parse_fen(&buf).is_err());
}
