//! C05 (FEN text <-> board) and C06 (parser totality). Hosted inside `fen` (private helper parsers).
use super::*;
use crate::kani_verif_common::*;
use crate::verif_fen as f;
use crate::Board;
use chess_bitboard::{BitBoard, Color, Piece};

fn any_slice<const N: usize>(buf: &[u8; N]) -> &[u8] {
    let n: usize = kani::any();
    kani::assume(n <= N);
    &buf[..n]
}
/// `rest` is a suffix of `s` obtained by consuming exactly k leading bytes
fn consumed(s: &[u8], rest: &[u8], k: usize) -> bool {
    k <= s.len() && rest.len() == s.len() - k && rest.as_ptr() == s[k..].as_ptr()
}

// ---------------------------------------------------------------- whole-string obligations
// Measured: parse_fen on a concrete string costs 3 s of symbolic execution and a few symbolic bytes at FIXED
// positions a few seconds more, while byte strings that are symbolic throughout (or of symbolic length) do not
// get through symbolic execution even for 3 bytes (the placement loop merges 14-way per byte). All whole-string
// obligations therefore use a FIXED total length with symbolic content in a window / of a fixed shape, and are
// labelled bounded.
const BASE: &[u8] = b"r3k2r/8/8/pppppppp/PPPPPPPP/8/8/R3K2R w KQkq - 10 20";
const BASE_LEN: usize = 52;
const PREFIX: &[u8] = b"r3k2r/8/8/pppppppp/PPPPPPPP/8/8/R3K2R";
const PREFIX_LEN: usize = 37;
const W_PAWNS: u64 = 0x0000_0000_ff00_0000;
const B_PAWNS: u64 = 0x0000_00ff_0000_0000;
fn base_position() -> r::P {
    r::P { col: [W_PAWNS | 0x91, B_PAWNS | 0x9100_0000_0000_0000], pcs: [W_PAWNS | B_PAWNS, 0, 0, 0x8100_0000_0000_0081, 0, 0x1000_0000_0000_0010], turn: 0, rights: 15, ep: r::NO_EP, half: 10, full: 20 }
}

/// totality on a window: the canonical base text with W arbitrary bytes at a fixed offset (and optionally one
/// arbitrary byte appended): parse_fen returns; when it accepts, the board passes validate()
macro_rules! window {
    ($name:ident, $off:expr, $w:expr, $extra:expr) => {
        #[kani::proof]
        #[kani::unwind(56)]
        fn $name() {
            let mut buf = [0u8; BASE_LEN + $extra];
            let mut i = 0;
            while i < BASE_LEN {
                buf[i] = BASE[i];
                i += 1;
            }
            let mut j = 0;
            while j < $w {
                buf[$off + j] = kani::any();
                j += 1;
            }
            let mut k = 0;
            while k < $extra {
                buf[BASE_LEN + k] = kani::any();
                k += 1;
            }
            match parse_fen(&buf) {
                Ok(b) => assert!(b.validate().is_ok(), "VERIF parse_fen returned a board that validate() rejects"),
                Err(_) => (),
            }
        }
    };
}

/// C05 parse(write(P)) on the five trailing fields, one field SHAPE per obligation (fixed text length), all
/// VALUES of that shape: NR = number of castling rights (0 => "-"), EP = 1 if an en-passant square is present,
/// DIG = number of digits of both clocks
macro_rules! parse_tail {
    ($name:ident, $nr:expr, $ep:expr, $dig:expr) => {
        #[kani::proof]
        #[kani::unwind(66)]
        fn $name() {
            let mut p = base_position();
            p.turn = kani::any();
            p.rights = kani::any();
            p.ep = kani::any();
            p.half = kani::any();
            p.full = kani::any();
            kani::assume(p.turn <= 1 && p.rights < 16 && p.ep <= 8);
            kani::assume(p.rights.count_ones() == $nr && (p.ep < 8) == ($ep == 1));
            let (lo, hi): (u16, u16) = match $dig { 1 => (0, 9), 2 => (10, 99), 3 => (100, 999), _ => (1000, 9999) };
            kani::assume(p.half >= lo && p.half <= hi && p.full >= lo && p.full <= hi);
            let mut o = f::Out::new();
            let mut i = 0;
            while i < PREFIX_LEN {
                o.put(PREFIX[i]);
                i += 1;
            }
            f::fen_tail(&p, &mut o);
            const LEN: usize = PREFIX_LEN + 3 + (if $nr == 0 { 1 } else { $nr }) + 1 + (1 + $ep) + 1 + $dig + 1 + $dig;
            assert!(o.n == LEN, "VERIF spec writer length");
            let mut text = [0u8; LEN];
            let mut j = 0;
            while j < LEN {
                text[j] = o.b[j];
                j += 1;
            }
            match parse_fen(&text) {
                Ok(b) => {
                    let got = view(&b);
                    assert!(same_view(&got, &p), "VERIF parse(write(P)) != P: turn {} rights {} ep {} half {} full {}", p.turn, p.rights, p.ep, p.half, p.full);
                    assert!(b.zobrist == piece_hash_spec(&b), "VERIF parsed hash field != from-scratch piece hash");
                    assert!(b.checkers.to_u64() == r::checkers_spec(&got) && b.pinned.to_u64() == r::pinned_spec(&got), "VERIF parsed cached sets != spec");
                }
                Err(e) => assert!(false, "VERIF canonical FEN rejected: {:?} (turn {} rights {} ep {} half {} full {})", e, p.turn, p.rights, p.ep, p.half, p.full),
            }
        }
    };
}

/// one rank (ranks 2..7 by instantiation) whose occupancy PATTERN is fixed and whose pieces are arbitrary:
/// parse_fen(canonical text) == Ok(board with exactly this placement) or a validation error when the position is
/// not playable; never a syntax error. PATTERN bit i set = file i occupied.
macro_rules! parse_rank {
    ($name:ident, $rank:expr, $pattern:expr) => {
        #[kani::proof]
        #[kani::unwind(66)]
        fn $name() {
            let cells: [u8; 8] = kani::any();
            let mut p = r::P { col: [0x10, 0x1000_0000_0000_0000], pcs: [0, 0, 0, 0, 0, 0x1000_0000_0000_0010], turn: kani::any(), rights: 0, ep: r::NO_EP, half: 0, full: 1 };
            kani::assume(p.turn <= 1);
            let mut i = 0u8;
            while i < 8 {
                if ($pattern >> i) & 1 == 1 {
                    let c = cells[i as usize];
                    kani::assume(c >= 1 && c <= 12);
                    let sq = g::sq_of(i, $rank);
                    p.col[((c - 1) / 6) as usize] |= g::bit(sq);
                    p.pcs[((c - 1) % 6) as usize] |= g::bit(sq);
                }
                i += 1;
            }
            let mut o = f::Out::new();
            f::fen_spec(&p, &mut o);
            const RUNS: usize = {
                // number of characters of the rank text: one per occupied file plus one per maximal empty run
                let mut n = 0;
                let mut i = 0;
                let mut in_run = false;
                while i < 8 {
                    if ($pattern >> i) & 1 == 1 { n += 1; in_run = false; } else if !in_run { n += 1; in_run = true; }
                    i += 1;
                }
                n
            };
            // two king ranks "4k3"/"4K3", five empty ranks "8", seven slashes, the symbolic rank, tail " w - - 0 1"
            const LEN: usize = 6 + 5 + 7 + RUNS + 10;
            kani::assume(o.n == LEN);
            let mut text = [0u8; LEN];
            let mut j = 0;
            while j < LEN {
                text[j] = o.b[j];
                j += 1;
            }
            match parse_fen(&text) {
                Ok(b) => assert!(same_view(&view(&b), &p), "VERIF parse(write(P)) != P"),
                Err(ParseFenError::BoardValidation(_)) => assert!(!r::playable(&p), "VERIF canonical FEN of a playable position rejected"),
                Err(e) => assert!(false, "VERIF canonical FEN rejected with a syntax error {:?}", e),
            }
            kani::cover!(o.n == LEN);
        }
    };
}

// ---------------------------------------------------------------- C05: write(P) == canonical text
struct Buf {
    b: [u8; f::FEN_MAX],
    n: usize,
}
impl core::fmt::Write for Buf {
    fn write_str(&mut self, s: &str) -> core::fmt::Result {
        for &c in s.as_bytes() {
            if self.n >= f::FEN_MAX {
                return Err(core::fmt::Error);
            }
            self.b[self.n] = c;
            self.n += 1;
        }
        Ok(())
    }
}
fn same_text(w: &Buf, o: &f::Out) -> bool {
    if w.n != o.n {
        return false;
    }
    let mut i = 0;
    let mut ok = true;
    while i < f::FEN_MAX {
        if i < w.n && w.b[i] != o.b[i] {
            ok = false;
        }
        i += 1;
    }
    ok
}
fn board_of(p: &r::P) -> Board {
    let mut raw = crate::raw::RawBoard::empty();
    let pieces = [Piece::Pawn, Piece::Knight, Piece::Bishop, Piece::Rook, Piece::Queen, Piece::King];
    let mut i = 0;
    while i < 6 {
        raw.xor(Color::White, pieces[i], BitBoard::from_u64(p.pcs[i] & p.col[0]));
        raw.xor(Color::Black, pieces[i], BitBoard::from_u64(p.pcs[i] & p.col[1]));
        i += 1;
    }
    Board {
        zobrist: kani::any(),
        turn: color_of(p.turn),
        castle_rights: rights_from_bits(p.rights),
        enpassant_target: if p.ep >= 8 { crate::OptionalFile::None } else { crate::OptionalFile::from(chess_bitboard::File::from_u8(p.ep)) },
        half_move_clock: p.half,
        full_move_clock: p.full,
        pinned: kani::any(),
        checkers: kani::any(),
        raw,
    }
}
/// Display == canonical text for ALL 4-digit / 1-digit clock values (other fields concrete)
macro_rules! write_clocks {
    ($name:ident, $lo:expr, $hi:expr) => {
        #[kani::proof]
        #[kani::unwind(97)]
        fn $name() {
            use core::fmt::Write;
            let mut p = base_position();
            p.half = kani::any();
            p.full = kani::any();
            kani::assume(p.half >= $lo && p.half <= $hi && p.full >= $lo && p.full <= $hi);
            let b = board_of(&p);
            let mut w = Buf { b: [0; f::FEN_MAX], n: 0 };
            assert!(write!(w, "{}", b).is_ok(), "VERIF Display failed");
            let mut o = f::Out::new();
            f::fen_spec(&p, &mut o);
            assert!(same_text(&w, &o), "VERIF Display != canonical FEN: half {} full {}", p.half, p.full);
        }
    };
}
/// Display with one rank of fixed occupancy pattern and arbitrary pieces, other ranks as in the kings-only board
macro_rules! write_rank {
    ($name:ident, $rank:expr, $pattern:expr) => {
        #[kani::proof]
        #[kani::unwind(97)]
        fn $name() {
            use core::fmt::Write;
            let cells: [u8; 8] = kani::any();
            let mut p = r::P { col: [0x10, 0x1000_0000_0000_0000], pcs: [0, 0, 0, 0, 0, 0x1000_0000_0000_0010], turn: 0, rights: 0, ep: r::NO_EP, half: 0, full: 1 };
            let mut i = 0u8;
            while i < 8 {
                if ($pattern >> i) & 1 == 1 {
                    let c = cells[i as usize];
                    kani::assume(c >= 1 && c <= 12);
                    let sq = g::sq_of(i, $rank);
                    p.col[((c - 1) / 6) as usize] |= g::bit(sq);
                    p.pcs[((c - 1) % 6) as usize] |= g::bit(sq);
                }
                i += 1;
            }
            let b = board_of(&p);
            let mut w = Buf { b: [0; f::FEN_MAX], n: 0 };
            assert!(write!(w, "{}", b).is_ok(), "VERIF Display failed");
            let mut o = f::Out::new();
            f::fen_spec(&p, &mut o);
            assert!(same_text(&w, &o), "VERIF Display != canonical FEN for the symbolic rank");
        }
    };
}

/// constructors agree: Board::standard(), the builder fed with the standard placement, and the parser on the
/// standard FEN give field-for-field identical boards (ground)
#[kani::proof]
#[kani::unwind(66)]
fn c05_constructors() {
    let s = Board::standard();
    let parsed = parse_fen(b"rnbqkbnr/pppppppp/8/8/8/8/PPPPPPPP/RNBQKBNR w KQkq - 0 0");
    match parsed {
        Ok(b) => {
            assert!(same_view(&view(&b), &view(&s)) && b.zobrist == s.zobrist && b.pinned == s.pinned && b.checkers == s.checkers, "VERIF parser and standard() disagree");
        }
        Err(_) => assert!(false, "VERIF standard FEN rejected"),
    }
    let mut bb = Board::builder();
    let sv = view(&s);
    let mut i = 0u8;
    while i < 64 {
        if let Some(pc) = r::piece_at(&sv, i) {
            let c = if g::has(sv.col[0], i) { Color::White } else { Color::Black };
            let _ = bb.place(chess_bitboard::Pos::from_u8(i).unwrap(), c, Piece::from_u8(pc).unwrap());
        }
        i += 1;
    }
    bb.castle_rights(crate::castle_rights::CastleRights::full());
    match bb.build() {
        Ok(b) => assert!(same_view(&view(&b), &sv) && b.zobrist == s.zobrist && b.pinned == s.pinned && b.checkers == s.checkers, "VERIF builder and standard() disagree"),
        Err(_) => assert!(false, "VERIF builder rejected the standard position"),
    }
}

/// vacuity guard
#[kani::proof]
#[kani::unwind(30)]
fn c06_fen_cover() {
    let mut s = *b"k7/8/8/8/8/8/8/K7 w - - 0 1";
    s[18] = kani::any();
    let r = parse_fen(&s);
    kani::cover!(r.is_ok() && s[18] == b'b');
    kani::cover!(matches!(r, Err(ParseFenError::InvalidTurn(_))));
}

// ---------------------------------------------------------------- ground round trips (one canonical FEN each)
/// parse -> board -> Display reproduces the text byte for byte; the spec writer applied to the parsed position
/// reproduces it too (so the board denotes exactly the position the text describes); hash field == from-scratch
/// hash; cached sets == spec; the position is playable
macro_rules! ground {
    ($name:ident, $text:expr) => {
        #[kani::proof]
        #[kani::unwind(97)]
        fn $name() {
            use core::fmt::Write;
            let text: &[u8] = $text;
            match parse_fen(text) {
                Err(e) => assert!(false, "VERIF canonical FEN rejected: {:?}", e),
                Ok(b) => {
                    let p = view(&b);
                    let mut o = f::Out::new();
                    f::fen_spec(&p, &mut o);
                    let mut w = Buf { b: [0; f::FEN_MAX], n: 0 };
                    assert!(write!(w, "{}", b).is_ok(), "VERIF Display failed");
                    assert!(o.n == text.len() && w.n == text.len(), "VERIF round-trip length: text {} spec {} Display {}", text.len(), o.n, w.n);
                    let mut i = 0;
                    while i < f::FEN_MAX {
                        if i < text.len() {
                            assert!(o.b[i] == text[i], "VERIF parsed position does not denote the text at byte {}", i);
                            assert!(w.b[i] == text[i], "VERIF Display(parse(text)) differs from text at byte {}", i);
                        }
                        i += 1;
                    }
                    assert!(b.zobrist == piece_hash_spec(&b), "VERIF parsed hash field != from-scratch piece hash");
                    assert!(b.checkers.to_u64() == r::checkers_spec(&p) && b.pinned.to_u64() == r::pinned_spec(&p), "VERIF parsed cached sets != spec");
                    assert!(r::playable(&p), "VERIF parsed position not playable");
                }
            }
        }
    };
}
ground!(c05_ground_standard, b"rnbqkbnr/pppppppp/8/8/8/8/PPPPPPPP/RNBQKBNR w KQkq - 0 1");
ground!(c05_ground_kiwipete, b"r3k2r/p1ppqpb1/bn2pnp1/3PN3/1p2P3/2N2Q1p/PPPBBPPP/R3K2R w KQkq - 10 99");
ground!(c05_ground_ep_white, b"rnbqkbnr/ppp1pppp/8/3pP3/8/8/PPPP1PPP/RNBQKBNR w KQkq d6 0 3");
ground!(c05_ground_ep_black, b"rnbqkbnr/pppp1ppp/8/8/3Pp3/8/PPP1PPPP/RNBQKBNR b KQkq d3 0 3");
ground!(c05_ground_rights_kq, b"r3k2r/8/8/8/8/8/8/R3K2R b Kq - 100 9999");
ground!(c05_ground_rights_qk, b"r3k2r/8/8/8/8/8/8/R3K2R w Qk - 9 10");
ground!(c05_ground_runs, b"1k6/2p5/3n4/4b3/5r2/6q1/7P/7K b - - 1234 567");
ground!(c05_ground_check, b"4k3/8/8/8/8/8/4r3/4K2R w K - 3 40");

ground!(c05_ground_r00, b"r3k2r/8/8/8/8/8/8/R3K2R w - - 0 1");
ground!(c05_ground_r01, b"r3k2r/8/8/8/8/8/8/R3K2R w K - 0 1");
ground!(c05_ground_r02, b"r3k2r/8/8/8/8/8/8/R3K2R w Q - 0 1");
ground!(c05_ground_r03, b"r3k2r/8/8/8/8/8/8/R3K2R w KQ - 0 1");
ground!(c05_ground_r04, b"r3k2r/8/8/8/8/8/8/R3K2R w k - 0 1");
ground!(c05_ground_r05, b"r3k2r/8/8/8/8/8/8/R3K2R w Kk - 0 1");
ground!(c05_ground_r07, b"r3k2r/8/8/8/8/8/8/R3K2R w KQk - 0 1");
ground!(c05_ground_r08, b"r3k2r/8/8/8/8/8/8/R3K2R w q - 0 1");
ground!(c05_ground_r10, b"r3k2r/8/8/8/8/8/8/R3K2R w Qq - 0 1");
ground!(c05_ground_r11, b"r3k2r/8/8/8/8/8/8/R3K2R w KQq - 0 1");
ground!(c05_ground_r12, b"r3k2r/8/8/8/8/8/8/R3K2R w kq - 0 1");
ground!(c05_ground_r13, b"r3k2r/8/8/8/8/8/8/R3K2R w Kkq - 0 1");
ground!(c05_ground_r14, b"r3k2r/8/8/8/8/8/8/R3K2R w Qkq - 0 1");

/// totality on a single-byte window of a short canonical text: every value of the byte at a fixed offset;
/// parse_fen returns, and a board it accepts passes validate()
macro_rules! window1 {
    ($name:ident, $off:expr) => {
        #[kani::proof]
        #[kani::unwind(30)]
        fn $name() {
            let mut s = *b"k7/8/8/8/8/8/8/K7 w - - 0 1";
            s[$off] = kani::any();
            match parse_fen(&s) {
                Ok(b) => assert!(b.validate().is_ok(), "VERIF parse_fen returned a board that validate() rejects"),
                Err(_) => (),
            }
        }
    };
}
window1!(c06_w_00, 0);
window1!(c06_w_02, 2);
window1!(c06_w_17, 17);
window1!(c06_w_18, 18);
window1!(c06_w_20, 20);
window1!(c06_w_22, 22);
window1!(c06_w_24, 24);
window1!(c06_w_26, 26);
ground!(c05_ground_bare_kings, b"4k3/8/8/8/8/8/8/4K3 w - - 0 1");
ground!(c05_ground_corners, b"7k/8/8/8/8/8/8/K7 b - - 5 6");

/// ground totality cases: malformed or truncated strings must be REJECTED without a panic (every place where the
/// text can stop: after a complete rank, inside a rank, after the placement, after each later field; plus
/// over-long ranks, bad letters, bad digits)
macro_rules! reject {
    ($name:ident, $text:expr) => {
        #[kani::proof]
        #[kani::unwind(97)]
        fn $name() {
            let text: &[u8] = $text;
            assert!(parse_fen(text).is_err(), "VERIF malformed FEN accepted");
        }
    };
}
reject!(c06_reject_empty, b"");
reject!(c06_reject_one_rank, b"8");
reject!(c06_reject_after_rank, b"rnbqkbnr/pppppppp/8/8");
reject!(c06_reject_seven_ranks, b"4k3/8/8/8/8/8/8");
reject!(c06_reject_mid_rank, b"4k3/8/8/8/8/8/8/4K");
reject!(c06_reject_no_turn, b"4k3/8/8/8/8/8/8/4K3");
reject!(c06_reject_no_rights, b"4k3/8/8/8/8/8/8/4K3 w");
reject!(c06_reject_no_ep, b"4k3/8/8/8/8/8/8/4K3 w -");
reject!(c06_reject_no_clocks, b"4k3/8/8/8/8/8/8/4K3 w - -");
reject!(c06_reject_one_clock, b"4k3/8/8/8/8/8/8/4K3 w - - 0");
reject!(c06_reject_long_rank, b"4k3/9/8/8/8/8/8/4K3 w - - 0 1");
reject!(c06_reject_rank_overflow, b"4k3/7pp/8/8/8/8/8/4K3 w - - 0 1");
reject!(c06_reject_bad_letter, b"4k3/8/8/3x4/8/8/8/4K3 w - - 0 1");
reject!(c06_reject_trailing, b"4k3/8/8/8/8/8/8/4K3 w - - 0 1 ");
reject!(c06_reject_ep_rank, b"4k3/8/8/3pP3/8/8/8/4K3 w - d3 0 1");
reject!(c06_reject_five_digits, b"4k3/8/8/8/8/8/8/4K3 w - - 0 12345");
