//! C05 / C06: the private helper parsers of fen.rs as exact inverses of the field writers, on ALL short byte strings.
//! Kept apart from fen.rs so that a change to a helper signature loses only these anchors.
use super::*;
use crate::kani_verif_common::*;
use crate::verif_fen as f;
use crate::Board;
use chess_bitboard::{BitBoard, Color, Piece};

fn any_slice<const N: usize>(buf: &[u8; N]) -> &[u8] {
    let n: usize = kani::any();
    kani::assume(n <= N);
    &buf[..n]
}
/// `rest` is a suffix of `s` obtained by consuming exactly k leading bytes
fn consumed(s: &[u8], rest: &[u8], k: usize) -> bool {
    k <= s.len() && rest.len() == s.len() - k && rest.as_ptr() == s[k..].as_ptr()
}

// ---------------------------------------------------------------- helper parsers: total, consume what they say
/// parse_piece on ALL byte strings of length <= 3: letters -> (colour, piece), digits 1-8 -> run length, else untouched
#[kani::proof]
fn c06_parse_piece() {
    let buf: [u8; 3] = kani::any();
    let s = any_slice(&buf);
    let (out, rest) = parse_piece(s);
    if s.is_empty() {
        assert!(out.is_none() && consumed(s, rest, 0), "VERIF parse_piece on empty input");
        return;
    }
    let c = s[0];
    let want_piece = Piece::from_ascii_byte(c);
    match out {
        Some(Ok((color, piece))) => {
            assert!(want_piece == Some(piece), "VERIF parse_piece {:#x} -> {:?}", c, piece);
            assert!((color == Color::White) == c.is_ascii_uppercase(), "VERIF parse_piece colour of {:#x}", c);
            assert!(consumed(s, rest, 1), "VERIF parse_piece consumed");
        }
        Some(Err(run)) => assert!(c >= b'1' && c <= b'8' && run == c - b'0' && consumed(s, rest, 1), "VERIF parse_piece run length {:#x}", c),
        None => assert!(want_piece.is_none() && !(c >= b'1' && c <= b'8') && consumed(s, rest, 0), "VERIF parse_piece rejected {:#x}", c),
    }
}

/// parse_number on ALL byte strings of length <= 6: up to four leading digits, decimal value, None iff no digit;
/// never overflows
#[kani::proof]
#[kani::unwind(6)]
fn c06_parse_number() {
    let buf: [u8; 6] = kani::any();
    let s0 = any_slice(&buf);
    let mut s = s0;
    let r = parse_number(&mut s);
    let mut k = 0usize;
    let mut val = 0u32;
    while k < 4 && k < s0.len() && s0[k].is_ascii_digit() {
        val = val * 10 + (s0[k] - b'0') as u32;
        k += 1;
    }
    if k == 0 {
        assert!(r.is_none(), "VERIF parse_number without digits returned {:?}", r);
    } else {
        assert!(r == Some(val as u16), "VERIF parse_number {:?} -> {:?}, want {}", s0, r, val);
        assert!(consumed(s0, s, k), "VERIF parse_number consumed {} bytes", k);
    }
}

/// parse_whitespace / parse_dash / parse_castle_rights on ALL byte strings of length <= 5
#[kani::proof]
#[kani::unwind(7)]
fn c06_parse_small() {
    let buf: [u8; 5] = kani::any();
    let s = any_slice(&buf);
    let mut k = 0;
    while k < s.len() && s[k] == b' ' {
        k += 1;
    }
    match parse_whitespace(s, MissingWhitespace::Turn) {
        Ok(rest) => assert!(k > 0 && consumed(s, rest, k), "VERIF parse_whitespace consumed"),
        Err(e) => assert!(k == 0 && e == ParseFenError::MissingWhitespace(MissingWhitespace::Turn), "VERIF parse_whitespace error"),
    }
    match parse_dash(s) {
        Some(rest) => assert!(!s.is_empty() && s[0] == b'-' && consumed(s, rest, 1), "VERIF parse_dash"),
        None => assert!(s.is_empty() || s[0] != b'-', "VERIF parse_dash rejected '-'"),
    }
    let b: u8 = kani::any();
    let (hit, rest) = parse_castle_rights(s, b);
    assert!(hit == (!s.is_empty() && s[0] == b) && consumed(s, rest, if hit { 1 } else { 0 }), "VERIF parse_castle_rights");
}

