//! Kani requires a `proof_for_contract` harness for every `stub_verified` target in the crate being
//! verified. The contracts of the chess_lookup accessors are woven onto the real functions and
//! discharged in chess-lookup (obligations C08.* / C09.*); these are the same proofs, restated so that
//! chess-movegen harnesses may use `#[kani::stub_verified(chess_lookup::…)]`.
use chess_bitboard::{BitBoard, Color, Pos};

macro_rules! dep {
    ($name:ident, $f:path, $($arg:ty),*) => {
        #[kani::proof_for_contract($f)]
        #[kani::unwind(9)]
        fn $name() {
            let _ = $f($(kani::any::<$arg>()),*);
        }
    };
}
dep!(dep_knight_moves, chess_lookup::knight_moves, Pos);
dep!(dep_king_moves, chess_lookup::king_moves, Pos);
dep!(dep_rook_rays, chess_lookup::rook_rays, Pos);
dep!(dep_bishop_rays, chess_lookup::bishop_rays, Pos);
dep!(dep_between, chess_lookup::between, Pos, Pos);
dep!(dep_pawn_attacks_moves, chess_lookup::pawn_attacks_moves, Pos, Color);
dep!(dep_pawn_attacks, chess_lookup::pawn_attacks, Pos, Color, BitBoard);
dep!(dep_pawn_quiets, chess_lookup::pawn_quiets, Pos, Color, BitBoard);
dep!(dep_pawn_moves, chess_lookup::pawn_moves, Pos, Color, BitBoard);
