//! C06 (validation half) / C03 (from-scratch check+pin info) — contracts on Board::validate,
//! RawBoard::has_kings, Board::update_pin_info, BoardBuilder::build.
use super::kani_verif_common::*;
use crate::{Board, BoardValidationError};

/// {wf placement} validate() {Ok => each of the five C06 conditions} — full symbolic board, loop-free code.
/// One assertion per clause so that a refutation names the clause.
#[kani::proof]
#[kani::unwind(9)]
#[kani::stub(crate::Board::is_legal_king_position, king_position_contract_stub)]
fn c06_validate_sound() {
    let b = any_board();
    let p = view(&b);
    if b.validate().is_ok() {
        assert!(r::one_king_each(&p), "VERIF validate accepted: not exactly one king per side");
        assert!(r::at_most_16(&p), "VERIF validate accepted: more than 16 pieces on a side");
        assert!(r::rights_ok(&p), "VERIF validate accepted: castling right without king and rook at home");
        assert!(r::ep_ok(&p), "VERIF validate accepted: en-passant marker not on an empty square behind an enemy pawn on its double-step rank");
        assert!(r::opponent_not_in_check(&p), "VERIF validate accepted: side not to move is in check");
    }
}

/// no over-rejection: every playable position is accepted (needed for 'every canonical FEN of a
/// legally reachable position is accepted')
#[kani::proof]
#[kani::unwind(9)]
#[kani::stub(crate::Board::is_legal_king_position, king_position_contract_stub)]
fn c06_validate_complete() {
    let b = any_board();
    let p = view(&b);
    if r::playable(&p) {
        let v = b.validate();
        assert!(v.is_ok(), "VERIF validate rejected a playable position: {:?}", v);
    }
}

/// error classification: which error for which violated clause (first failing clause in the code's order)
#[kani::proof]
#[kani::unwind(9)]
#[kani::stub(crate::Board::is_legal_king_position, king_position_contract_stub)]
fn c06_validate_errors() {
    let b = any_board();
    let p = view(&b);
    match b.validate() {
        Err(BoardValidationError::MissingKings) => assert!(!r::one_king_each(&p), "VERIF MissingKings on a board with one king each"),
        Err(BoardValidationError::TooManyPieces) => assert!(!r::at_most_16(&p), "VERIF TooManyPieces on a board with <= 16 per side"),
        Err(BoardValidationError::InvalidEnpassant) => assert!(!r::ep_ok(&p), "VERIF InvalidEnpassant on a fine marker"),
        Err(BoardValidationError::InvalidCastleRights) => assert!(!r::rights_ok(&p), "VERIF InvalidCastleRights on fine rights"),
        #[allow(unreachable_patterns)]
        Err(_) => assert!(!r::opponent_not_in_check(&p), "VERIF other validation error on a position whose opponent is not in check"),
        Ok(()) => (),
    }
}

#[kani::proof]
fn c06_has_kings() {
    let raw = any_raw();
    let b = Board { raw, ..Board::standard() };
    assert!(raw.has_kings() == r::one_king_each(&view(&b)), "VERIF has_kings");
}

/// {one king of the mover, <= 16 enemy pieces} update_pin_info() {checkers, pinned == from-scratch spec; nothing
/// else modified}. The chess_lookup accessors are replaced by their C09-verified contracts (stub_verified),
/// so a symbolic-index table read becomes a ray walk.
#[kani::proof]
#[kani::unwind(17)]
#[kani::stub_verified(chess_lookup::between)]
#[kani::stub_verified(chess_lookup::rook_rays)]
#[kani::stub_verified(chess_lookup::bishop_rays)]
#[kani::stub_verified(chess_lookup::knight_moves)]
#[kani::stub_verified(chess_lookup::pawn_attacks_moves)]
fn c03_pin_info() {
    let mut b = any_board();
    let p = view(&b);
    kani::assume(r::one_king_each(&p) && r::at_most_16(&p));
    let before = b;
    b.update_pin_info();
    // set equality, stated square-wise for a nondeterministic square q
    let q: u8 = kani::any();
    kani::assume(q < 64);
    assert!(g::has(b.checkers.to_u64(), q) == r::is_checker(&p, q), "VERIF update_pin_info checkers at square {}", q);
    assert!(g::has(b.pinned.to_u64(), q) == r::is_pinned(&p, q), "VERIF update_pin_info pinned at square {}", q);
    // frame
    assert!(same_view(&view(&b), &p) && b.zobrist == before.zobrist, "VERIF update_pin_info modified another field");
}

/// foreach-loop proof of update_pin_info, ingredient 1 (body): with the one-shot iterator the slider loop
/// ranges over exactly the spec's pinner set, and for an ARBITRARY pinner s the body adds s to checkers iff
/// nothing stands between, else the single blocker to pinned; knights and pawns are added directly
#[kani::proof]
#[kani::unwind(9)]
#[kani::stub(chess_bitboard::BitBoard::pop, pop_one_shot)]
#[kani::stub_verified(chess_lookup::between)]
#[kani::stub_verified(chess_lookup::rook_rays)]
#[kani::stub_verified(chess_lookup::bishop_rays)]
#[kani::stub_verified(chess_lookup::knight_moves)]
#[kani::stub_verified(chess_lookup::pawn_attacks_moves)]
fn c03_pin_info_body() {
    let mut b = any_board();
    let p = view(&b);
    kani::assume(r::one_king_each(&p));
    let before = b;
    b.update_pin_info();
    let k = r::king_of(&p, p.turn);
    let set = if npops() >= 1 { pop_set(0) } else { 0 };
    assert!(npops() <= 1 && set == r::pinners_spec(&p), "VERIF update_pin_info: slider loop ranges over {:#x}, spec pinners {:#x}", set, r::pinners_spec(&p));
    let (mut want_c, mut want_p) = (r::leaper_checkers_spec(&p), 0u64);
    if npops() == 1 {
        let s = popped(0);
        let btw = g::between_spec(k, s) & r::occ(&p);
        if btw == 0 {
            want_c |= g::bit(s);
        } else if btw.count_ones() == 1 {
            want_p = btw;
        }
    }
    assert!(b.checkers.to_u64() == want_c, "VERIF update_pin_info body: checkers {:#x} want {:#x}", b.checkers.to_u64(), want_c);
    assert!(b.pinned.to_u64() == want_p, "VERIF update_pin_info body: pinned {:#x} want {:#x}", b.pinned.to_u64(), want_p);
    assert!(same_view(&view(&b), &p) && b.zobrist == before.zobrist, "VERIF update_pin_info modified another field");
    kani::cover!(npops() == 1 && want_p != 0, "reach: a pinner with exactly one blocker");
    kani::cover!(npops() == 1 && want_c & g::bit(popped(0)) != 0, "reach: a slider gives check");
}

/// ingredient 2 (spec-only lemma): the from-scratch sets are exactly the union of the body contributions
/// over all pinners: is_checker / is_pinned (query forms) characterised through pinners_spec
#[kani::proof]
#[kani::unwind(9)]
fn c03_pin_lemma() {
    let b = any_board();
    let p = view(&b);
    kani::assume(r::one_king_each(&p));
    let k = r::king_of(&p, p.turn);
    let o = r::occ(&p);
    let q: u8 = kani::any();
    let s: u8 = kani::any();
    kani::assume(q < 64 && s < 64);
    let pinners = r::pinners_spec(&p);
    // checkers = leapers + pinners with nothing between
    let body_checker = g::has(r::leaper_checkers_spec(&p), q) || (g::has(pinners, q) && g::between_spec(k, q) & o == 0);
    assert!(r::is_checker(&p, q) == body_checker, "VERIF lemma: checker characterisation at {}", q);
    // every pinner with exactly one blocker pins that blocker ...
    if g::has(pinners, s) && (g::between_spec(k, s) & o).count_ones() == 1 && g::has(g::between_spec(k, s) & o, q) {
        assert!(r::is_pinned(&p, q), "VERIF lemma: blocker {} of pinner {} is not pinned by the spec", q, s);
    }
    // ... and every pinned square is the single blocker of some pinner (the first piece beyond it)
    if r::is_pinned(&p, q) {
        let (df, dr) = g::aligned_dir(k, q).unwrap();
        let w = (g::ray(q, df, dr, o) & o).trailing_zeros() as u8;
        assert!(g::has(pinners, w) && g::between_spec(k, w) & o == g::bit(q), "VERIF lemma: pinned {} has no pinner", q);
    }
}

/// ingredient 3 (skeleton, bounded): the real iterator with at most two pinners equals the spec
#[kani::proof]
#[kani::unwind(9)]
#[kani::stub_verified(chess_lookup::between)]
#[kani::stub_verified(chess_lookup::rook_rays)]
#[kani::stub_verified(chess_lookup::bishop_rays)]
#[kani::stub_verified(chess_lookup::knight_moves)]
#[kani::stub_verified(chess_lookup::pawn_attacks_moves)]
fn c03_pin_info_loop2() {
    let mut b = any_board();
    let p = view(&b);
    kani::assume(r::one_king_each(&p) && r::pinners_spec(&p).count_ones() <= 2);
    b.update_pin_info();
    let q: u8 = kani::any();
    kani::assume(q < 64);
    assert!(g::has(b.checkers.to_u64(), q) == r::is_checker(&p, q), "VERIF update_pin_info (<= 2 pinners) checkers at {}", q);
    assert!(g::has(b.pinned.to_u64(), q) == r::is_pinned(&p, q), "VERIF update_pin_info (<= 2 pinners) pinned at {}", q);
}

/// contract abstraction of update_pin_info (discharged by C03.pin_info.body / pin_lemma / loop2): requires one
/// king each; only the two cached sets change and they equal the from-scratch spec
fn pin_info_contract_stub(b: &mut Board) {
    let p = view(b);
    assert!(r::one_king_each(&p), "VERIF update_pin_info called without exactly one king per side");
    b.checkers = kani::any();
    b.pinned = kani::any();
    kani::assume(b.checkers.to_u64() == r::checkers_spec(&p) && b.pinned.to_u64() == r::pinned_spec(&p));
}
/// BoardBuilder::build(): Ok(b) only if validate() accepted, and b differs from the builder's board only
/// in the two cached sets, which equal the spec
#[kani::proof]
#[kani::unwind(9)]
#[kani::stub(crate::Board::update_pin_info, pin_info_contract_stub)]
#[kani::stub(crate::Board::is_legal_king_position, king_position_contract_stub)]
fn c06_build() {
    let inner = any_board();
    let builder = crate::BoardBuilder { board: inner };
    let p = view(&inner);
    match builder.build() {
        Ok(b) => {
            assert!(inner.validate().is_ok(), "VERIF build returned a board that validate() rejects");
            assert!(same_view(&view(&b), &p) && b.zobrist == inner.zobrist, "VERIF build changed the position");
            let q: u8 = kani::any();
            kani::assume(q < 64);
            assert!(caches_ok_at(&b, q), "VERIF build: cached check/pin sets differ from the spec at square {}", q);
        }
        Err(e) => assert!(inner.validate() == Err(e), "VERIF build error differs from validate()"),
    }
    kani::cover!(builder.build().is_ok(), "reach: build accepted");
}

#[kani::proof]
#[kani::unwind(9)]
#[kani::stub(crate::Board::is_legal_king_position, king_position_contract_stub)]
fn c06_cover() {
    let b = any_board();
    let p = view(&b);
    let ok = b.validate().is_ok();
    kani::cover!(ok && p.rights == 15);
    kani::cover!(ok && p.ep != r::NO_EP && p.turn == g::WHITE);
    kani::cover!(ok && p.ep != r::NO_EP && p.turn == g::BLACK);
    kani::cover!(ok && p.col[0].count_ones() == 16 && p.col[1].count_ones() == 16);
    kani::cover!(!ok);
}

/// negated twin: must be refuted
#[kani::proof]
#[kani::unwind(9)]
#[kani::stub(crate::Board::is_legal_king_position, king_position_contract_stub)]
fn c06_negtwin() {
    let b = any_board();
    assert!(b.validate().is_err());
}
