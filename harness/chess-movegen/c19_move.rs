//! C19 (move text): ChessMove::from_ascii_bytes accepts exactly `e2e4` / `e2-e4` shapes over ALL byte
//! strings of length <= 6, always yields piece: None; Display of a non-promotion move parses back.
use crate::ChessMove;
use chess_bitboard::Pos;

fn any_slice<const N: usize>(buf: &[u8; N]) -> &[u8] {
    let n: usize = kani::any();
    kani::assume(n <= N);
    &buf[..n]
}

#[kani::proof]
fn c19_move_parse() {
    let buf: [u8; 6] = kani::any();
    let s = any_slice(&buf);
    let got = ChessMove::from_ascii_bytes(s);
    let sq = |a: u8, b: u8| Pos::from_ascii_bytes(&[a, b]);
    let want = if s.len() == 4 {
        match (sq(s[0], s[1]), sq(s[2], s[3])) {
            (Some(a), Some(b)) => Some((a, b)),
            _ => None,
        }
    } else if s.len() == 5 && s[2] == b'-' {
        match (sq(s[0], s[1]), sq(s[3], s[4])) {
            (Some(a), Some(b)) => Some((a, b)),
            _ => None,
        }
    } else {
        None
    };
    assert!(got.map(|m| (m.source, m.dest)) == want, "VERIF ChessMove::from_ascii_bytes {:?} -> {:?}", s, got);
    if let Some(m) = got {
        assert!(m.piece.is_none(), "VERIF parsed move has a promotion piece {:?}", s);
    }
}

struct Buf {
    b: [u8; 8],
    n: usize,
}
impl core::fmt::Write for Buf {
    fn write_str(&mut self, s: &str) -> core::fmt::Result {
        for &c in s.as_bytes() {
            if self.n >= 8 {
                return Err(core::fmt::Error);
            }
            self.b[self.n] = c;
            self.n += 1;
        }
        Ok(())
    }
}

/// all 4096 non-promotion moves: Display -> bytes -> from_ascii_bytes is the identity
#[kani::proof]
#[kani::unwind(9)]
fn c19_move_roundtrip() {
    use core::fmt::Write;
    let m = ChessMove { source: kani::any(), dest: kani::any(), piece: None };
    let mut w = Buf { b: [0; 8], n: 0 };
    assert!(write!(w, "{}", m).is_ok(), "VERIF Display ChessMove ok {:?}", m);
    assert!(w.n == 5 && w.b[2] == b'-', "VERIF Display ChessMove shape {:?}", m);
    assert!(ChessMove::from_ascii_bytes(&w.b[..w.n]) == Some(m), "VERIF move text round trip {:?}", m);
}

/// negated twin: must be refuted
#[kani::proof]
fn c19_move_negtwin() {
    let buf: [u8; 6] = kani::any();
    let s = any_slice(&buf);
    assert!(ChessMove::from_ascii_bytes(s).is_none());
}
