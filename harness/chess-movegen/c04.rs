//! C04 — the position hash is a pure function of the position; C03 — in_check.
use super::kani_verif_common::*;
use crate::{Board, OptionalFile};
use chess_bitboard::{BitBoard, Color, File, Piece, Pos};

/// {|diff| <= 2} Board::xor(color, piece, diff) {every set and the hash change by exactly diff; frame}
#[kani::proof]
#[kani::unwind(8)]
fn c04_xor() {
    // also from states that are not placements (make-move's intermediate states)
    let mut b = any_board_loose();
    let old = b;
    let (c, p, d): (Color, Piece, BitBoard) = (kani::any(), kani::any(), kani::any());
    kani::assume(d.count() <= 2);
    b.xor(c, p, d);
    assert!(xor_post(&old, &b, c, p, d), "VERIF Board::xor({:?},{:?},{:#x})", c, p, d.to_u64());
}

/// zobrist() = piece hash field ^ turn key ^ en-passant-file key (if any) ^ castling-rights key; reads nothing else
#[kani::proof]
fn c04_read() {
    let b = any_board();
    let want = b.zobrist
        ^ chess_lookup::turn_zobrist(b.turn)
        ^ match view(&b).ep {
            8 => 0,
            f => chess_lookup::en_passant_zobrist(File::from_u8(f).unwrap()),
        }
        ^ chess_lookup::castle_rights_zobrist(b.castle_rights.to_index());
    assert!(b.zobrist() == want, "VERIF zobrist() composition");
    // clocks and cached sets do not influence the hash
    let mut c = b;
    c.half_move_clock = kani::any();
    c.full_move_clock = kani::any();
    c.pinned = kani::any();
    c.checkers = kani::any();
    assert!(c.zobrist() == b.zobrist(), "VERIF zobrist() depends on a clock or a cached set");
    assert!(b.castle_rights.to_index() == view(&b).rights as usize, "VERIF to_index");
}

struct Rec(Option<u64>, bool);
impl core::hash::Hasher for Rec {
    fn finish(&self) -> u64 {
        0
    }
    fn write(&mut self, _: &[u8]) {
        self.1 = true;
    }
    fn write_u64(&mut self, i: u64) {
        self.0 = Some(i);
    }
}

/// Eq/Hash coherence: boards compare equal iff placement, side to move, rights and e.p. file are equal
/// (clocks ignored); equal boards (whose hash field is a function of the placement - the invariant) hash equal;
/// Hash feeds exactly zobrist()
#[kani::proof]
#[kani::unwind(8)]
fn c04_eq_hash() {
    use core::hash::Hash;
    let a = any_board();
    let b = any_board();
    // invariant instance: the piece-hash field is a function of the placement
    kani::assume(a.raw != b.raw || a.zobrist == b.zobrist);
    let (pa, pb) = (view(&a), view(&b));
    let (mut pa2, mut pb2) = (pa, pb);
    pa2.half = 0;
    pa2.full = 0;
    pb2.half = 0;
    pb2.full = 0;
    let same_position = same_view(&pa2, &pb2);
    assert!((a == b) == same_position, "VERIF Board == is not equality of placement/turn/rights/ep");
    if a == b {
        assert!(a.zobrist() == b.zobrist(), "VERIF equal boards hash differently");
    }
    let mut h = Rec(None, false);
    a.hash(&mut h);
    assert!(h.0 == Some(a.zobrist()) && !h.1, "VERIF Hash does not feed zobrist()");
}

/// Board::standard(): literal hash equals the from-scratch piece hash; placement is the standard one;
/// cached sets equal the spec (ground)
#[kani::proof]
#[kani::unwind(65)]
fn c04_standard() {
    let b = Board::standard();
    assert!(b.zobrist == piece_hash_spec(&b), "VERIF Board::standard() hash literal");
    let p = view(&b);
    assert!(p.col[0] == 0xffff && p.col[1] == 0xffff_0000_0000_0000 && p.pcs[r::PAWN as usize] == 0x00ff_0000_0000_ff00, "VERIF standard placement");
    assert!(p.pcs[r::KNIGHT as usize] == 0x4200000000000042 && p.pcs[r::BISHOP as usize] == 0x2400000000000024 && p.pcs[r::ROOK as usize] == 0x8100000000000081, "VERIF standard placement");
    assert!(p.pcs[r::QUEEN as usize] == 0x0800000000000008 && p.pcs[r::KING as usize] == 0x1000000000000010, "VERIF standard placement");
    assert!(p.turn == g::WHITE && p.rights == 15 && p.ep == r::NO_EP && p.half == 0, "VERIF standard state");
    assert!(r::valid(&p), "VERIF standard position is not valid");
    assert!(b.checkers.to_u64() == r::checkers_spec(&p) && b.pinned.to_u64() == r::pinned_spec(&p), "VERIF standard cached sets");
}

/// BoardBuilder::place / remove keep 'hash field = xor of the keys of the placed pieces'
#[kani::proof]
#[kani::unwind(8)]
fn c04_builder() {
    let inner = any_board();
    let mut bb = crate::BoardBuilder { board: inner };
    let (pos, c, p): (Pos, Color, Piece) = (kani::any(), kani::any(), kani::any());
    let occupied = inner.raw.all().contains(pos);
    let ok = bb.place(pos, c, p).is_ok();
    assert!(ok == !occupied, "VERIF place on {:?}: ok={} occupied={}", pos, ok, occupied);
    if ok {
        assert!(xor_post(&inner, &bb.board, c, p, BitBoard::from_pos(pos)), "VERIF place({:?},{:?},{:?})", pos, c, p);
    } else {
        assert!(same_view(&view(&bb.board), &view(&inner)) && bb.board.zobrist == inner.zobrist, "VERIF refused place changed the board");
    }
    let mut rb = crate::BoardBuilder { board: inner };
    let at = inner.raw.get(pos);
    rb.remove(pos);
    match at {
        Some((c2, p2)) => assert!(xor_post(&inner, &rb.board, c2, p2, BitBoard::from_pos(pos)), "VERIF remove({:?})", pos),
        None => assert!(same_view(&view(&rb.board), &view(&inner)) && rb.board.zobrist == inner.zobrist, "VERIF remove of an empty square changed the board"),
    }
    // raw.get agrees with the sets
    let pv = view(&inner);
    assert!(at.map(|(c2, p2)| (col(c2), pc(p2))) == if g::has(r::occ(&pv), pos as u8) { Some((if g::has(pv.col[0], pos as u8) { 0 } else { 1 }, r::piece_at(&pv, pos as u8).unwrap())) } else { None }, "VERIF RawBoard::get({:?})", pos);
}

/// in_check() <=> the mover's king is attacked (under the invariant: cached checkers == spec, kings not adjacent)
#[kani::proof]
#[kani::unwind(9)]
fn c03_in_check() {
    let b = any_board();
    let p = view(&b);
    kani::assume(r::one_king_each(&p));
    kani::assume(b.checkers.to_u64() == r::checkers_spec(&p));
    kani::assume(!g::has(g::king_att(r::king_of(&p, p.turn)), r::king_of(&p, 1 - p.turn)));
    assert!(b.in_check() == r::in_check_spec(&p), "VERIF in_check()");
}

#[kani::proof]
#[kani::unwind(8)]
fn c04_cover() {
    let a = any_board();
    let b = any_board();
    kani::cover!(a == b && a.half_move_clock != b.half_move_clock);
    kani::cover!(view(&a).ep == 3 && view(&a).rights == 9);
}
/// negated twin: must be refuted
#[kani::proof]
fn c04_negtwin() {
    let a = any_board();
    let mut b = a;
    b.turn = !a.turn;
    assert!(a.zobrist() == b.zobrist());
}
