//! C09, generator clause: the per-square functions the tables were printed from equal the same geometric
//! definitions the checked-in tables are proved equal to (C09.*), so tables == generator for these lookups.
//! The generator's between()/line() (whole-Vec builders) and the magic search are not verified (DESIGN 5 C09).
use crate::verif_geom as g;
use crate::*;
use chess_bitboard::Pos;

#[kani::proof]
#[kani::unwind(10)]
fn c09_gen_rays() {
    let p: Pos = kani::any();
    assert!(rook_rays(p).to_u64() == g::rook_rays_spec(p as u8), "VERIF generator rook_rays({:?})", p);
    assert!(bishop_rays(p).to_u64() == g::bishop_rays_spec(p as u8), "VERIF generator bishop_rays({:?})", p);
}
#[kani::proof]
#[kani::unwind(10)]
fn c09_gen_leapers() {
    let p: Pos = kani::any();
    assert!(knight_moves(p).to_u64() == g::knight_att(p as u8), "VERIF generator knight_moves({:?})", p);
    assert!(king_moves(p).to_u64() == g::king_att(p as u8), "VERIF generator king_moves({:?})", p);
}
#[kani::proof]
#[kani::unwind(10)]
fn c09_gen_pawns() {
    let p: Pos = kani::any();
    let a = pawn_attacks(p);
    assert!(a[0].to_u64() == g::pawn_att(p as u8, g::WHITE) && a[1].to_u64() == g::pawn_att(p as u8, g::BLACK), "VERIF generator pawn_attacks({:?})", p);
    let q = pawn_quiets(p);
    // the table holds the push squares on an empty board
    assert!(q[0].to_u64() == g::pawn_push(p as u8, g::WHITE, 0) && q[1].to_u64() == g::pawn_push(p as u8, g::BLACK, 0), "VERIF generator pawn_quiets({:?})", p);
}
