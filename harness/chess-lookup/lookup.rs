//! C08 / C09 / C17 / C04.keys — chess-lookup accessors, constants, key table and book iterator.
//! Attribute contracts (kani::ensures, woven onto the real accessor fns by vlib/registry.py) against the
//! ray-walking specification library; each `*_contract` harness is a proof_for_contract over the FULL
//! domain (symbolic square(s), colour and all 2^64 occupancies) and restates the ensures clause as an
//! assert so that a counterexample also fails when replayed natively.
use crate::verif_geom as g;
use crate::*;
use chess_bitboard::{BitBoard, Color, File, Piece, Pos, Rank};

fn col(c: Color) -> u8 {
    match c {
        Color::White => g::WHITE,
        Color::Black => g::BLACK,
    }
}

// ------------------------------------------------------------------ C08 sliders
macro_rules! slider_group {
    ($name:ident, $f:ident, $spec:path, $lo:expr, $hi:expr) => {
        #[kani::proof]
        #[kani::unwind(9)]
        fn $name() {
            let pos: Pos = kani::any();
            kani::assume(pos as u8 >= $lo && pos as u8 <= $hi);
            let occ: u64 = kani::any();
            let r = $f(pos, BitBoard::from_u64(occ));
            assert!(r.to_u64() == $spec(pos as u8, occ), "VERIF {}({:?}, {:#x}) = {:#x}", stringify!($f), pos, occ, r.to_u64());
        }
    };
}
slider_group!(c08_rook_g0, rook_moves, g::rook_att, 0, 15);
slider_group!(c08_rook_g1, rook_moves, g::rook_att, 16, 31);
slider_group!(c08_rook_g2, rook_moves, g::rook_att, 32, 47);
slider_group!(c08_rook_g3, rook_moves, g::rook_att, 48, 63);
slider_group!(c08_bishop_g0, bishop_moves, g::bishop_att, 0, 15);
slider_group!(c08_bishop_g1, bishop_moves, g::bishop_att, 16, 31);
slider_group!(c08_bishop_g2, bishop_moves, g::bishop_att, 32, 47);
slider_group!(c08_bishop_g3, bishop_moves, g::bishop_att, 48, 63);
slider_group!(c08_rook_all, rook_moves, g::rook_att, 0, 63);
slider_group!(c08_bishop_all, bishop_moves, g::bishop_att, 0, 63);

#[kani::proof]
#[kani::unwind(9)]
fn c08_cover() {
    let pos: Pos = kani::any();
    let occ: u64 = kani::any();
    let r = rook_moves(pos, BitBoard::from_u64(occ)).to_u64();
    let b = bishop_moves(pos, BitBoard::from_u64(occ)).to_u64();
    kani::cover!(pos as u8 == 27 && r.count_ones() == 4);
    kani::cover!(pos as u8 == 0 && r.count_ones() == 14);
    kani::cover!(pos as u8 == 63 && b.count_ones() == 7);
    kani::cover!(b == 0x8040201008040200);
}
/// negated twin: must be refuted
#[kani::proof]
#[kani::unwind(9)]
fn c08_negtwin() {
    let pos: Pos = kani::any();
    kani::assume(pos as u8 == 27);
    let occ: u64 = kani::any();
    assert!(rook_moves(pos, BitBoard::from_u64(occ)).to_u64() != g::rook_att(27, occ));
}

// ------------------------------------------------------------------ C09 geometry tables
#[kani::proof_for_contract(knight_moves)]
fn c09_knight_contract() {
    let p: Pos = kani::any();
    let r = knight_moves(p);
    assert!(r.to_u64() == g::knight_att(p as u8), "VERIF knight_moves({:?}) = {:#x}", p, r.to_u64());
}
#[kani::proof_for_contract(king_moves)]
fn c09_king_contract() {
    let p: Pos = kani::any();
    let r = king_moves(p);
    assert!(r.to_u64() == g::king_att(p as u8), "VERIF king_moves({:?}) = {:#x}", p, r.to_u64());
}
#[kani::proof_for_contract(rook_rays)]
#[kani::unwind(9)]
fn c09_rook_rays_contract() {
    let p: Pos = kani::any();
    let r = rook_rays(p);
    assert!(r.to_u64() == g::rook_rays_spec(p as u8), "VERIF rook_rays({:?}) = {:#x}", p, r.to_u64());
}
#[kani::proof_for_contract(bishop_rays)]
#[kani::unwind(9)]
fn c09_bishop_rays_contract() {
    let p: Pos = kani::any();
    let r = bishop_rays(p);
    assert!(r.to_u64() == g::bishop_rays_spec(p as u8), "VERIF bishop_rays({:?}) = {:#x}", p, r.to_u64());
}
#[kani::proof_for_contract(between)]
#[kani::unwind(9)]
fn c09_between_contract() {
    let (a, b): (Pos, Pos) = (kani::any(), kani::any());
    let r = between(a, b);
    assert!(r.to_u64() == g::between_spec(a as u8, b as u8), "VERIF between({:?},{:?}) = {:#x}", a, b, r.to_u64());
}
#[kani::proof]
#[kani::unwind(9)]
fn c09_line_contract() {
    let (a, b): (Pos, Pos) = (kani::any(), kani::any());
    let r = line(a, b);
    assert!(r.to_u64() == g::line_spec(a as u8, b as u8), "VERIF line({:?},{:?}) = {:#x}", a, b, r.to_u64());
}
#[kani::proof_for_contract(distance)]
fn c09_distance_contract() {
    let (a, b): (Pos, Pos) = (kani::any(), kani::any());
    let r = distance(a, b);
    assert!(r == g::distance_spec(a as u8, b as u8), "VERIF distance({:?},{:?}) = {}", a, b, r);
}
#[kani::proof_for_contract(pawn_attacks_moves)]
fn c09_pawn_attacks_moves_contract() {
    let p: Pos = kani::any();
    let c: Color = kani::any();
    let r = pawn_attacks_moves(p, c);
    assert!(r.to_u64() == g::pawn_att(p as u8, col(c)), "VERIF pawn_attacks_moves({:?},{:?}) = {:#x}", p, c, r.to_u64());
}
#[kani::proof_for_contract(pawn_attacks)]
fn c09_pawn_attacks_contract() {
    let p: Pos = kani::any();
    let c: Color = kani::any();
    let occ: u64 = kani::any();
    let r = pawn_attacks(p, c, BitBoard::from_u64(occ));
    assert!(r.to_u64() == g::pawn_att(p as u8, col(c)) & occ, "VERIF pawn_attacks({:?},{:?},{:#x}) = {:#x}", p, c, occ, r.to_u64());
}
#[kani::proof_for_contract(pawn_quiets)]
fn c09_pawn_quiets_contract() {
    let p: Pos = kani::any();
    let c: Color = kani::any();
    let occ: u64 = kani::any();
    let r = pawn_quiets(p, c, BitBoard::from_u64(occ));
    assert!(r.to_u64() == g::pawn_push(p as u8, col(c), occ), "VERIF pawn_quiets({:?},{:?},{:#x}) = {:#x}", p, c, occ, r.to_u64());
}
#[kani::proof_for_contract(pawn_moves)]
fn c09_pawn_moves_contract() {
    let p: Pos = kani::any();
    let c: Color = kani::any();
    let occ: u64 = kani::any();
    let r = pawn_moves(p, c, BitBoard::from_u64(occ));
    assert!(r.to_u64() == g::pawn_push(p as u8, col(c), occ) | (g::pawn_att(p as u8, col(c)) & occ), "VERIF pawn_moves({:?},{:?},{:#x}) = {:#x}", p, c, occ, r.to_u64());
}

fn rk(r: u8) -> u64 {
    g::rank_set(r)
}
fn fl(f: u8) -> u64 {
    g::file_set(f)
}
/// constants equal their geometric definitions (ground + symbolic index)
#[kani::proof]
#[kani::unwind(9)]
fn c09_constants() {
    assert!(PAWN_DOUBLE_SOURCE.to_u64() == rk(1) | rk(6), "VERIF PAWN_DOUBLE_SOURCE");
    assert!(PAWN_DOUBLE_DEST.to_u64() == rk(3) | rk(4), "VERIF PAWN_DOUBLE_DEST");
    assert!(BACKRANK[Color::White] == Rank::_1 && BACKRANK[Color::Black] == Rank::_8, "VERIF BACKRANK");
    assert!(BACKRANK_BB[Color::White].to_u64() == rk(0) && BACKRANK_BB[Color::Black].to_u64() == rk(7), "VERIF BACKRANK_BB");
    assert!(CASTLE_MOVES.to_u64() == g::bit(2) | g::bit(4) | g::bit(6) | g::bit(58) | g::bit(60) | g::bit(62), "VERIF CASTLE_MOVES");
    assert!(PAWN_DOUBLE_MOVE[Color::White].to_u64() == rk(1) | rk(3) && PAWN_DOUBLE_MOVE[Color::Black].to_u64() == rk(6) | rk(4), "VERIF PAWN_DOUBLE_MOVE");
    assert!(ROOK_CASTLE_QUEENSIDE.to_u64() == fl(0) | fl(3) && ROOK_CASTLE_KINGSIDE.to_u64() == fl(7) | fl(5), "VERIF ROOK_CASTLE_*");
    let f: File = kani::any();
    assert!(CASTLE_ROOK_START[f] == if (f as u8) < 4 { File::A } else { File::H }, "VERIF CASTLE_ROOK_START {:?}", f);
    assert!(CASTLE_ROOK_END[f] == if (f as u8) < 4 { File::D } else { File::F }, "VERIF CASTLE_ROOK_END {:?}", f);
    assert!(PROMOTION_RANK[Color::White] == Rank::_8 && PROMOTION_RANK[Color::Black] == Rank::_1, "VERIF PROMOTION_RANK");
    assert!(PAWN_DOUBLE_MOVE_SOURCE_RANK[Color::White] == Rank::_2 && PAWN_DOUBLE_MOVE_SOURCE_RANK[Color::Black] == Rank::_7, "VERIF PAWN_DOUBLE_MOVE_SOURCE_RANK");
    assert!(PAWN_DOUBLE_MOVE_DEST_RANK[Color::White] == Rank::_4 && PAWN_DOUBLE_MOVE_DEST_RANK[Color::Black] == Rank::_5, "VERIF PAWN_DOUBLE_MOVE_DEST_RANK");
    let i = f as u8;
    let adj = (if i > 0 { fl(i - 1) } else { 0 }) | (if i < 7 { fl(i + 1) } else { 0 });
    assert!(ADJACENT_FILES[f].to_u64() == adj, "VERIF ADJACENT_FILES {:?}", f);
    let r: Rank = kani::any();
    let j = r as u8;
    let adj = (if j > 0 { rk(j - 1) } else { 0 }) | (if j < 7 { rk(j + 1) } else { 0 });
    assert!(ADJACENT_RANKS[r].to_u64() == adj, "VERIF ADJACENT_RANKS {:?}", r);
    assert!(KINGSIDE_CASTLE_FILES.to_u64() == fl(5) | fl(6) && QUEENSIDE_CASTLE_FILES.to_u64() == fl(1) | fl(2) | fl(3), "VERIF *_CASTLE_FILES");
    assert!(KINGSIDE_CASTLE_SAFE_FILES.to_u64() == fl(5) | fl(6) && QUEENSIDE_CASTLE_SAFE_FILES.to_u64() == fl(2) | fl(3), "VERIF *_CASTLE_SAFE_FILES");
    // colour-dependent en-passant ranks (chess-bitboard): White captures onto rank 6 a pawn standing on rank 5
    assert!(Color::White.enpassant_capture_rank() == Rank::_6 && Color::Black.enpassant_capture_rank() == Rank::_3, "VERIF enpassant_capture_rank");
    assert!(Color::White.enpassant_pawn_rank() == Rank::_5 && Color::Black.enpassant_pawn_rank() == Rank::_4, "VERIF enpassant_pawn_rank");
}
#[kani::proof]
#[kani::unwind(9)]
fn c09_cover() {
    let (a, b): (Pos, Pos) = (kani::any(), kani::any());
    kani::cover!(between(a, b).to_u64().count_ones() == 6);
    kani::cover!(line(a, b).to_u64().count_ones() == 2);
    kani::cover!(line(a, b).none() && a != b);
    kani::cover!(knight_moves(a).to_u64().count_ones() == 8);
}
/// negated twin: must be refuted
#[kani::proof]
#[kani::unwind(9)]
fn c09_negtwin() {
    let (a, b): (Pos, Pos) = (kani::any(), kani::any());
    assert!(between(a, b).to_u64() != g::between_spec(a as u8, b as u8));
}

// ------------------------------------------------------------------ C04.keys
fn key(i: u16) -> u64 {
    if i < 768 {
        let color = if i < 384 { Color::White } else { Color::Black };
        let r = i % 384;
        let pos = Pos::from_u8((r / 6) as u8).unwrap();
        let piece = Piece::from_u8((r % 6) as u8).unwrap();
        zobrist(pos, piece, color)
    } else if i < 784 {
        castle_rights_zobrist((i - 768) as usize)
    } else if i < 792 {
        en_passant_zobrist(File::from_u8((i - 784) as u8).unwrap())
    } else {
        turn_zobrist(if i == 792 { Color::White } else { Color::Black })
    }
}
/// all 794 keys (read through the public accessors) are pairwise distinct and non-zero
#[kani::proof]
fn c04_keys() {
    let (i, j): (u16, u16) = (kani::any(), kani::any());
    kani::assume(i < 794 && j < 794 && i != j);
    let (a, b) = (key(i), key(j));
    assert!(a != 0, "VERIF zero key at flattened index {}", i);
    assert!(a != b, "VERIF duplicate key at flattened indices {} and {} ({:#x})", i, j, a);
}

// ------------------------------------------------------------------ C17 book traversal
/// BookMovesIter::next from ANY index inside the table: no out-of-range read, no underflow, no panic;
/// squares < 64; child index and the new cursor are strictly smaller than the old cursor
/// (=> every traversal terminates and stays inside the table).
#[kani::proof]
fn c17_next() {
    let index: usize = kani::any();
    kani::assume(index < lichess_book::BOOK_SIZE);
    let mut it = BookMovesIter { index };
    match it.next() {
        None => assert!(it.index <= index, "VERIF book cursor grew at {}", index),
        Some(mv) => {
            assert!(mv.children.index < index, "VERIF child index {} not below {}", mv.children.index, index);
            assert!(it.index < index, "VERIF cursor {} not below {}", it.index, index);
            assert!(it.index < lichess_book::BOOK_SIZE && mv.children.index < lichess_book::BOOK_SIZE, "VERIF book index out of range");
            assert!((mv.source as u8) < 64 && (mv.dest as u8) < 64, "VERIF book squares");
        }
    }
}
/// entry points are inside the table; into_iter starts at the node's index
#[kani::proof]
fn c17_entry() {
    assert!(INITIAL_BOOOK_MOVES.index == lichess_book::BOOK_SIZE - 1 && EMPTY_BOOK_MOVES.index == 0, "VERIF entry indices");
    assert!(lichess_book::BOOK.len() == lichess_book::BOOK_SIZE, "VERIF BOOK_SIZE");
    let mut e = EMPTY_BOOK_MOVES.into_iter();
    assert!(e.next().is_none(), "VERIF empty book node yields a move");
    let mut r = INITIAL_BOOOK_MOVES.into_iter();
    assert!(r.next().is_some(), "VERIF root node yields no move");
}
/// negated twin: must be refuted
#[kani::proof]
fn c17_negtwin() {
    let index: usize = kani::any();
    kani::assume(index < lichess_book::BOOK_SIZE);
    let mut it = BookMovesIter { index };
    assert!(it.next().is_none());
}
