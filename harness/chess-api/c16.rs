//! C16 — stable-ABI move and score encodings are lossless.
//! Harness-stated contracts on the real `From` impls and `EvaluatedMove::{new, chess_move, score}`
//! (trait impls / private mirror types: the module lives inside chess-api).
use crate::{ChessMove, EvaluatedMove, StableChessMove, StableOptionalChessMove};
use chess_bitboard::{Pos, PromotionPiece};
use chess_engine::Score;

fn any_pos() -> Pos {
    let x: u8 = kani::any();
    kani::assume(x < 64);
    Pos::from_u8(x).unwrap()
}
fn any_promo() -> Option<PromotionPiece> {
    let t: u8 = kani::any();
    kani::assume(t < 5);
    match t {
        0 => None,
        1 => Some(PromotionPiece::Knight),
        2 => Some(PromotionPiece::Bishop),
        3 => Some(PromotionPiece::Rook),
        _ => Some(PromotionPiece::Queen),
    }
}
fn any_move() -> ChessMove {
    ChessMove { source: any_pos(), dest: any_pos(), piece: any_promo() }
}
fn any_score() -> Score {
    let tag: u8 = kani::any();
    kani::assume(tag < 5);
    match tag {
        0 => Score::Min,
        1 => Score::BlackMateIn(kani::any()),
        2 => Score::Raw(kani::any()),
        3 => Score::WhiteMateIn(kani::any()),
        _ => Score::Max,
    }
}
fn same_move(a: ChessMove, b: ChessMove) -> bool {
    a.source as u8 == b.source as u8
        && a.dest as u8 == b.dest as u8
        && match (a.piece, b.piece) {
            (None, None) => true,
            (Some(x), Some(y)) => x as u8 == y as u8,
            _ => false,
        }
}
fn same_score(a: Score, b: Score) -> bool {
    match (a, b) {
        (Score::Min, Score::Min) | (Score::Max, Score::Max) => true,
        (Score::BlackMateIn(x), Score::BlackMateIn(y)) => x == y,
        (Score::WhiteMateIn(x), Score::WhiteMateIn(y)) => x == y,
        (Score::Raw(x), Score::Raw(y)) => x == y,
        _ => false,
    }
}

/// all 64*64*5 moves: ChessMove -> StableChessMove -> ChessMove is the identity
#[kani::proof]
fn c16_move() {
    let m = any_move();
    let back = ChessMove::from(StableChessMove::from(m));
    assert!(same_move(back, m), "VERIF move {:?} -> {:?}", m, back);
}

/// all optional moves through StableOptionalChessMove and EvaluatedMove: None stays None, Some(m) stays Some(m)
#[kani::proof]
fn c16_opt_move() {
    let m = any_move();
    let s = any_score();
    let some: Option<ChessMove> = StableOptionalChessMove::from(Some(m)).into();
    assert!(matches!(some, Some(b) if same_move(b, m)), "VERIF opt Some({:?}) -> {:?}", m, some);
    let direct: Option<ChessMove> = StableOptionalChessMove::from(m).into();
    assert!(matches!(direct, Some(b) if same_move(b, m)), "VERIF opt-direct {:?} -> {:?}", m, direct);
    let none: Option<ChessMove> = StableOptionalChessMove::from(None).into();
    assert!(none.is_none(), "VERIF opt None -> {:?}", none);
    let e = EvaluatedMove::new(Some(m), s).chess_move();
    assert!(matches!(e, Some(b) if same_move(b, m)), "VERIF evaluated Some({:?}) -> {:?}", m, e);
    let e = EvaluatedMove::new(None, s).chess_move();
    assert!(e.is_none(), "VERIF evaluated None -> {:?}", e);
}

/// all scores (5 variants, full u16 / i32 payloads) through EvaluatedMove
#[kani::proof]
fn c16_score() {
    let s = any_score();
    let mv = if kani::any() { Some(any_move()) } else { None };
    let back = EvaluatedMove::new(mv, s).score();
    assert!(same_score(back, s), "VERIF score {:?} -> {:?}", s, back);
}

#[kani::proof]
fn c16_cover() {
    let m = any_move();
    let s = any_score();
    let e = EvaluatedMove::new(Some(m), s);
    kani::cover!(matches!(e.chess_move(), Some(ChessMove { piece: Some(PromotionPiece::Queen), .. })));
    kani::cover!(matches!(e.chess_move(), Some(ChessMove { piece: None, .. })));
    kani::cover!(matches!(e.score(), Score::Raw(i32::MIN)));
    kani::cover!(matches!(e.score(), Score::WhiteMateIn(65535)));
}

/// negated twin: must be refuted
#[kani::proof]
fn c16_negtwin() {
    let m = any_move();
    let back = ChessMove::from(StableChessMove::from(m));
    assert!(!same_move(back, m));
}
