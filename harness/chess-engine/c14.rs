//! C14 — scores form a total order matching game-theoretic preference.
//! Contracts on the real `<Score as Ord>::cmp`, `PartialOrd`, `PartialEq`, `Ord::max/min`
//! (harness-stated: trait-impl methods cannot carry Kani attribute contracts).
use crate::Score;
use core::cmp::Ordering;

fn any_score() -> Score {
    let tag: u8 = kani::any();
    kani::assume(tag < 5);
    match tag {
        0 => Score::Min,
        1 => Score::BlackMateIn(kani::any()),
        2 => Score::Raw(kani::any()),
        3 => Score::WhiteMateIn(kani::any()),
        _ => Score::Max,
    }
}

/// Specification, written from the property statement (not from the code):
/// Min < every black mate < every numeric score < every white mate < Max;
/// slower black mate greater; numeric by value; quicker white mate greater.
fn rank(s: Score) -> i64 {
    match s {
        Score::Min => 0,
        Score::BlackMateIn(_) => 1,
        Score::Raw(_) => 2,
        Score::WhiteMateIn(_) => 3,
        Score::Max => 4,
    }
}
fn key(s: Score) -> i64 {
    match s {
        Score::Min | Score::Max => 0,
        Score::BlackMateIn(x) => x as i64,
        Score::Raw(x) => x as i64,
        Score::WhiteMateIn(x) => -(x as i64),
    }
}
fn spec_cmp(a: Score, b: Score) -> Ordering {
    let (ra, rb) = (rank(a), rank(b));
    if ra < rb {
        Ordering::Less
    } else if ra > rb {
        Ordering::Greater
    } else if key(a) < key(b) {
        Ordering::Less
    } else if key(a) > key(b) {
        Ordering::Greater
    } else {
        Ordering::Equal
    }
}
fn same(a: Score, b: Score) -> bool {
    rank(a) == rank(b) && key(a) == key(b)
}

/// {true} a.cmp(&b) {r == spec_cmp(a,b)} for all pairs
#[kani::proof]
fn c14_cmp() {
    let a = any_score();
    let b = any_score();
    assert!(a.cmp(&b) == spec_cmp(a, b), "VERIF cmp({:?},{:?})", a, b);
}

/// equality, partial comparison, total comparison and the four operators agree
#[kani::proof]
fn c14_partial_eq_ord() {
    let a = any_score();
    let b = any_score();
    let c = a.cmp(&b);
    assert!(a.partial_cmp(&b) == Some(c), "VERIF partial_cmp({:?},{:?})", a, b);
    assert!((a == b) == (c == Ordering::Equal), "VERIF eq({:?},{:?})", a, b);
    assert!((a == b) == same(a, b), "VERIF eq-structural({:?},{:?})", a, b);
    assert!((a != b) == (c != Ordering::Equal), "VERIF ne({:?},{:?})", a, b);
    assert!((a < b) == (c == Ordering::Less), "VERIF lt({:?},{:?})", a, b);
    assert!((a <= b) == (c != Ordering::Greater), "VERIF le({:?},{:?})", a, b);
    assert!((a > b) == (c == Ordering::Greater), "VERIF gt({:?},{:?})", a, b);
    assert!((a >= b) == (c != Ordering::Less), "VERIF ge({:?},{:?})", a, b);
}

/// strict total order laws on the real cmp, all triples; sentinels extreme; statement's clauses
#[kani::proof]
fn c14_laws() {
    let a = any_score();
    let b = any_score();
    let c = any_score();
    assert!(a.cmp(&a) == Ordering::Equal, "VERIF irreflexive {:?}", a);
    assert!(a.cmp(&b) == b.cmp(&a).reverse(), "VERIF antisymmetric {:?} {:?}", a, b);
    if a.cmp(&b) == Ordering::Equal {
        assert!(same(a, b), "VERIF equal-only-if-same {:?} {:?}", a, b);
    }
    if a.cmp(&b) != Ordering::Greater && b.cmp(&c) != Ordering::Greater {
        assert!(a.cmp(&c) != Ordering::Greater, "VERIF transitive {:?} {:?} {:?}", a, b, c);
    }
    if a < b && b <= c {
        assert!(a < c, "VERIF transitive-strict {:?} {:?} {:?}", a, b, c);
    }
    assert!(Score::Min <= a && a <= Score::Max, "VERIF sentinels {:?}", a);
    // the statement's clauses, spelled out on the real comparison
    let (x, y): (u16, u16) = (kani::any(), kani::any());
    let (p, q): (i32, i32) = (kani::any(), kani::any());
    assert!(Score::WhiteMateIn(x) > Score::Raw(p), "VERIF wm>raw {} {}", x, p);
    assert!(Score::Raw(p) > Score::BlackMateIn(y), "VERIF raw>bm {} {}", p, y);
    assert!((Score::WhiteMateIn(x) > Score::WhiteMateIn(y)) == (x < y), "VERIF quicker white mate {} {}", x, y);
    assert!((Score::BlackMateIn(x) > Score::BlackMateIn(y)) == (x > y), "VERIF slower black mate {} {}", x, y);
    assert!((Score::Raw(p) < Score::Raw(q)) == (p < q), "VERIF raw by value {} {}", p, q);
    assert!(Score::Min < Score::BlackMateIn(x) && Score::WhiteMateIn(x) < Score::Max, "VERIF extremes {}", x);
}

/// Ord::max / Ord::min as used by the cutoff update pick the spec-greater / spec-smaller value
#[kani::proof]
fn c14_max_min() {
    let a = any_score();
    let b = any_score();
    let m = a.max(b);
    let n = a.min(b);
    assert!(same(m, a) || same(m, b), "VERIF max-is-one {:?} {:?}", a, b);
    assert!(spec_cmp(m, a) != Ordering::Less && spec_cmp(m, b) != Ordering::Less, "VERIF max-upper {:?} {:?}", a, b);
    assert!(same(n, a) || same(n, b), "VERIF min-is-one {:?} {:?}", a, b);
    assert!(spec_cmp(n, a) != Ordering::Greater && spec_cmp(n, b) != Ordering::Greater, "VERIF min-lower {:?} {:?}", a, b);
}

/// vacuity guard: every variant pair class is reachable
#[kani::proof]
fn c14_cover() {
    let a = any_score();
    let b = any_score();
    let c = a.cmp(&b);
    kani::cover!(c == Ordering::Less && rank(a) == rank(b) && rank(a) == 3);
    kani::cover!(c == Ordering::Greater && rank(a) == rank(b) && rank(a) == 1);
    kani::cover!(c == Ordering::Equal && rank(a) == 2);
    kani::cover!(rank(a) == 0 && rank(b) == 4);
    kani::cover!(rank(a) == 4 && rank(b) == 0);
}

/// negated twin: must be REFUTED (a contradiction in the generators would make it pass)
#[kani::proof]
fn c14_negtwin() {
    let a = any_score();
    let b = any_score();
    assert!(a.cmp(&b) != spec_cmp(a, b));
}
