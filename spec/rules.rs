//! Specification library, part 2: the rules of chess over plain sets.
//! `legal` is decided by make-the-move-and-test-the-king; no pin or check bookkeeping.
//! Validated natively against published perft numbers (spec/selfcheck.rs) — it is the
//! definition of "rules of chess" used by the contracts, not verified code.
#![allow(dead_code)]
use super::verif_geom::*;

pub const PAWN: u8 = 0;
pub const KNIGHT: u8 = 1;
pub const BISHOP: u8 = 2;
pub const ROOK: u8 = 3;
pub const QUEEN: u8 = 4;
pub const KING: u8 = 5;

pub const R_WK: u8 = 1;
pub const R_WQ: u8 = 2;
pub const R_BK: u8 = 4;
pub const R_BQ: u8 = 8;
pub const NO_EP: u8 = 8;

/// A position: two colour sets, six piece sets, side to move, four castling rights,
/// en-passant file (8 = none), two clocks.
#[derive(Clone, Copy, PartialEq, Eq, Debug)]
pub struct P {
    pub col: [u64; 2],
    pub pcs: [u64; 6],
    pub turn: u8,
    pub rights: u8,
    pub ep: u8,
    pub half: u16,
    pub full: u16,
}

/// promo: 0 = none, else KNIGHT..QUEEN
#[derive(Clone, Copy, PartialEq, Eq, Debug)]
pub struct Mv {
    pub src: u8,
    pub dst: u8,
    pub promo: u8,
}

#[inline]
pub fn occ(p: &P) -> u64 {
    p.col[0] | p.col[1]
}
pub fn piece_at(p: &P, sq: u8) -> Option<u8> {
    let mut i = 0u8;
    while i < 6 {
        if has(p.pcs[i as usize], sq) {
            return Some(i);
        }
        i += 1;
    }
    None
}
#[inline]
pub fn of(p: &P, color: u8, piece: u8) -> u64 {
    p.col[color as usize] & p.pcs[piece as usize]
}
/// square of the (assumed unique) king of `color`; 64 when there is none
#[inline]
pub fn king_of(p: &P, color: u8) -> u8 {
    of(p, color, KING).trailing_zeros() as u8
}

/// the eight sets describe a placement: colours disjoint, piece kinds pairwise disjoint,
/// both unions equal
pub fn wf_placement(p: &P) -> bool {
    let mut union = 0u64;
    let mut i = 0;
    while i < 6 {
        if union & p.pcs[i] != 0 {
            return false;
        }
        union |= p.pcs[i];
        i += 1;
    }
    p.col[0] & p.col[1] == 0 && union == (p.col[0] | p.col[1])
}

/// is `sq` attacked by a piece of colour `by`, given occupancy `o` (pieces on squares in
/// `gone` are ignored as attackers)
pub fn attacked_with(p: &P, sq: u8, by: u8, o: u64, gone: u64) -> bool {
    let them = p.col[by as usize] & !gone;
    if knight_att(sq) & p.pcs[KNIGHT as usize] & them != 0 {
        return true;
    }
    if king_att(sq) & p.pcs[KING as usize] & them != 0 {
        return true;
    }
    // a pawn of colour `by` attacks sq iff it stands on a square from which sq is a capture
    // square, i.e. on a square that a pawn of the other colour on sq would attack
    if pawn_att(sq, 1 - by) & p.pcs[PAWN as usize] & them != 0 {
        return true;
    }
    let rq = (p.pcs[ROOK as usize] | p.pcs[QUEEN as usize]) & them;
    if rook_att(sq, o) & rq != 0 {
        return true;
    }
    let bq = (p.pcs[BISHOP as usize] | p.pcs[QUEEN as usize]) & them;
    bishop_att(sq, o) & bq != 0
}
pub fn attacked(p: &P, sq: u8, by: u8) -> bool {
    attacked_with(p, sq, by, occ(p), 0)
}
pub fn in_check_spec(p: &P) -> bool {
    attacked(p, king_of(p, p.turn), 1 - p.turn)
}

fn home_rank(color: u8) -> u8 {
    if color == WHITE {
        0
    } else {
        7
    }
}
fn right_bit(color: u8, kingside: bool) -> u8 {
    match (color == WHITE, kingside) {
        (true, true) => R_WK,
        (true, false) => R_WQ,
        (false, true) => R_BK,
        (false, false) => R_BQ,
    }
}

/// everything about `mv` except the safety of the mover's own king after the move
pub fn pattern_ok(p: &P, mv: Mv) -> bool {
    if mv.src > 63 || mv.dst > 63 || mv.promo > QUEEN {
        return false;
    }
    let us = p.turn;
    let them = 1 - us;
    let own = p.col[us as usize];
    let opp = p.col[them as usize];
    let o = own | opp;
    if !has(own, mv.src) || has(own, mv.dst) {
        return false;
    }
    // a king is never captured
    if has(opp & p.pcs[KING as usize], mv.dst) {
        return false;
    }
    let piece = match piece_at(p, mv.src) {
        Some(x) => x,
        None => return false,
    };
    if piece != PAWN && mv.promo != 0 {
        return false;
    }
    if piece == PAWN {
        let last = if us == WHITE { 7 } else { 0 };
        if (rank_of(mv.dst) == last) != (mv.promo != 0) {
            return false;
        }
        if has(pawn_push(mv.src, us, o), mv.dst) {
            return true;
        }
        if has(pawn_att(mv.src, us), mv.dst) {
            if has(opp, mv.dst) {
                return true;
            }
            // en passant: marker on this file, destination is the empty square behind the
            // enemy pawn that just made a double step
            let cap_rank = if us == WHITE { 5 } else { 2 };
            if p.ep != NO_EP && file_of(mv.dst) == p.ep && rank_of(mv.dst) == cap_rank && !has(o, mv.dst) {
                let victim = sq_of(p.ep, rank_of(mv.src));
                return has(opp & p.pcs[PAWN as usize], victim);
            }
        }
        return false;
    }
    if piece == KNIGHT {
        return has(knight_att(mv.src), mv.dst);
    }
    if piece == BISHOP {
        return slider_reaches(mv.src, mv.dst, o, true, false);
    }
    if piece == ROOK {
        return slider_reaches(mv.src, mv.dst, o, false, true);
    }
    if piece == QUEEN {
        return slider_reaches(mv.src, mv.dst, o, true, true);
    }
    // king
    if has(king_att(mv.src), mv.dst) {
        return true;
    }
    // castling: king on its home square moves two files along the home rank
    let hr = home_rank(us);
    let e = sq_of(4, hr);
    if mv.src != e || rank_of(mv.dst) != hr {
        return false;
    }
    let kingside = if mv.dst == sq_of(6, hr) {
        true
    } else if mv.dst == sq_of(2, hr) {
        false
    } else {
        return false;
    };
    if p.rights & right_bit(us, kingside) == 0 {
        return false;
    }
    let rook_home = if kingside { sq_of(7, hr) } else { sq_of(0, hr) };
    if !has(own & p.pcs[ROOK as usize], rook_home) {
        return false;
    }
    if between_spec(e, rook_home) & o != 0 {
        return false;
    }
    let transit = if kingside { sq_of(5, hr) } else { sq_of(3, hr) };
    !attacked(p, e, them) && !attacked(p, transit, them) && !attacked(p, mv.dst, them)
}

/// the successor position prescribed by the rules (meaningful when pattern_ok)
pub fn apply(p: &P, mv: Mv) -> P {
    let mut q = *p;
    let us = p.turn;
    let them = 1 - us;
    let piece = match piece_at(p, mv.src) {
        Some(x) => x,
        None => return q,
    };
    let s = bit(mv.src);
    let d = bit(mv.dst);
    let captured = if has(p.col[them as usize], mv.dst) { piece_at(p, mv.dst) } else { None };
    // lift the mover, remove a captured piece, drop the mover (or the promoted piece)
    q.col[us as usize] &= !s;
    q.pcs[piece as usize] &= !s;
    if let Some(c) = captured {
        q.col[them as usize] &= !d;
        q.pcs[c as usize] &= !d;
    }
    let placed = if piece == PAWN && mv.promo != 0 { mv.promo } else { piece };
    q.col[us as usize] |= d;
    q.pcs[placed as usize] |= d;
    let mut is_capture = captured.is_some();
    if piece == PAWN && file_of(mv.src) != file_of(mv.dst) && captured.is_none() {
        // en passant: the victim stands beside the capturer's source, on the destination file
        let v = bit(sq_of(file_of(mv.dst), rank_of(mv.src)));
        q.col[them as usize] &= !v;
        q.pcs[PAWN as usize] &= !v;
        is_capture = true;
    }
    let df = file_of(mv.dst) as i8 - file_of(mv.src) as i8;
    if piece == KING && (df == 2 || df == -2) {
        let hr = rank_of(mv.src);
        let (from, to) = if df == 2 { (sq_of(7, hr), sq_of(5, hr)) } else { (sq_of(0, hr), sq_of(3, hr)) };
        q.col[us as usize] = (q.col[us as usize] & !bit(from)) | bit(to);
        q.pcs[ROOK as usize] = (q.pcs[ROOK as usize] & !bit(from)) | bit(to);
    }
    q.turn = them;
    // castling rights: lost when the king or a rook leaves its home square, or a home rook is captured
    let hr = home_rank(us);
    if piece == KING {
        q.rights &= !(right_bit(us, true) | right_bit(us, false));
    }
    if piece == ROOK && mv.src == sq_of(7, hr) {
        q.rights &= !right_bit(us, true);
    }
    if piece == ROOK && mv.src == sq_of(0, hr) {
        q.rights &= !right_bit(us, false);
    }
    let ohr = home_rank(them);
    if captured == Some(ROOK) && mv.dst == sq_of(7, ohr) {
        q.rights &= !right_bit(them, true);
    }
    if captured == Some(ROOK) && mv.dst == sq_of(0, ohr) {
        q.rights &= !right_bit(them, false);
    }
    // en-passant marker on, and only on, a double pawn step
    let dr = rank_of(mv.dst) as i8 - rank_of(mv.src) as i8;
    q.ep = if piece == PAWN && (dr == 2 || dr == -2) { file_of(mv.dst) } else { NO_EP };
    q.half = if piece == PAWN || is_capture { 0 } else { p.half.wrapping_add(1) };
    q.full = if us == BLACK { p.full.wrapping_add(1) } else { p.full };
    q
}

/// legal under the rules of chess
pub fn legal(p: &P, mv: Mv) -> bool {
    if !pattern_ok(p, mv) {
        return false;
    }
    let q = apply(p, mv);
    !attacked(&q, king_of(&q, p.turn), 1 - p.turn)
}

/// enemy pieces that attack the mover's king
pub fn checkers_spec(p: &P) -> u64 {
    let us = p.turn;
    let them = p.col[(1 - us) as usize];
    let k = king_of(p, us);
    let o = occ(p);
    let rq = (p.pcs[ROOK as usize] | p.pcs[QUEEN as usize]) & them;
    let bq = (p.pcs[BISHOP as usize] | p.pcs[QUEEN as usize]) & them;
    (rook_att(k, o) & rq) | (bishop_att(k, o) & bq) | (knight_att(k) & p.pcs[KNIGHT as usize] & them) | (pawn_att(k, us) & p.pcs[PAWN as usize] & them)
}

/// first occupied square from `sq` in direction (df,dr), if any
fn first_hit(sq: u8, df: i8, dr: i8, o: u64) -> Option<u8> {
    // the walk stops at the first occupied square, so at most one bit survives
    let r = ray(sq, df, dr, o) & o;
    if r == 0 {
        None
    } else {
        Some(r.trailing_zeros() as u8)
    }
}
fn pinned_dir(p: &P, k: u8, df: i8, dr: i8, sliders: u64) -> u64 {
    let o = occ(p);
    match first_hit(k, df, dr, o) {
        None => 0,
        Some(b1) => match first_hit(b1, df, dr, o) {
            None => 0,
            Some(b2) => {
                if has(sliders, b2) {
                    bit(b1)
                } else {
                    0
                }
            }
        },
    }
}
/// pieces of either colour that are the sole blocker between the mover's king and an enemy
/// slider moving along that line (the definition the move generator relies on)
pub fn pinned_spec(p: &P) -> u64 {
    let us = p.turn;
    let them = p.col[(1 - us) as usize];
    let k = king_of(p, us);
    let rq = (p.pcs[ROOK as usize] | p.pcs[QUEEN as usize]) & them;
    let bq = (p.pcs[BISHOP as usize] | p.pcs[QUEEN as usize]) & them;
    pinned_dir(p, k, 1, 0, rq)
        | pinned_dir(p, k, -1, 0, rq)
        | pinned_dir(p, k, 0, 1, rq)
        | pinned_dir(p, k, 0, -1, rq)
        | pinned_dir(p, k, 1, 1, bq)
        | pinned_dir(p, k, -1, 1, bq)
        | pinned_dir(p, k, 1, -1, bq)
        | pinned_dir(p, k, -1, -1, bq)
}

/// the five conditions of property C06 on a position handed out by a constructor
pub fn one_king_each(p: &P) -> bool {
    of(p, WHITE, KING).count_ones() == 1 && of(p, BLACK, KING).count_ones() == 1
}
pub fn at_most_16(p: &P) -> bool {
    p.col[0].count_ones() <= 16 && p.col[1].count_ones() <= 16
}
pub fn opponent_not_in_check(p: &P) -> bool {
    !attacked(p, king_of(p, 1 - p.turn), p.turn)
}
pub fn rights_ok(p: &P) -> bool {
    let wk = has(of(p, WHITE, KING), 4);
    let bk = has(of(p, BLACK, KING), 60);
    (p.rights & R_WK == 0 || (wk && has(of(p, WHITE, ROOK), 7)))
        && (p.rights & R_WQ == 0 || (wk && has(of(p, WHITE, ROOK), 0)))
        && (p.rights & R_BK == 0 || (bk && has(of(p, BLACK, ROOK), 63)))
        && (p.rights & R_BQ == 0 || (bk && has(of(p, BLACK, ROOK), 56)))
        && p.rights < 16
}
pub fn ep_ok(p: &P) -> bool {
    if p.ep == NO_EP {
        return true;
    }
    if p.ep > 7 {
        return false;
    }
    // White to move: Black just played a double step to rank 5; the marker square is on rank 6
    let (cap_rank, pawn_rank) = if p.turn == WHITE { (5, 4) } else { (2, 3) };
    !has(occ(p), sq_of(p.ep, cap_rank)) && has(of(p, 1 - p.turn, PAWN), sq_of(p.ep, pawn_rank))
}
pub fn playable(p: &P) -> bool {
    wf_placement(p) && p.turn <= 1 && one_king_each(p) && at_most_16(p) && opponent_not_in_check(p) && rights_ok(p) && ep_ok(p)
}
/// a valid position in the sense of C01..C05: playable and no pawn on a back rank
pub fn valid(p: &P) -> bool {
    playable(p) && p.pcs[PAWN as usize] & (rank_set(0) | rank_set(7)) == 0
}

/// Query forms (one square at a time; a single line walk) of the two cached sets. Set-extensionally
/// equal to `checkers_spec` / `pinned_spec` (checked natively by spec/selfcheck.rs on every perft node);
/// contracts use them with a nondeterministic square, which keeps the solver query small.
pub fn slider_kind_ok(p: &P, sq: u8, df: i8, dr: i8) -> bool {
    let diagonal = df != 0 && dr != 0;
    if has(p.pcs[QUEEN as usize], sq) {
        return true;
    }
    if diagonal {
        has(p.pcs[BISHOP as usize], sq)
    } else {
        has(p.pcs[ROOK as usize], sq)
    }
}
/// does the enemy piece on `q` give check to the mover's king?
pub fn is_checker(p: &P, q: u8) -> bool {
    let us = p.turn;
    let them = p.col[(1 - us) as usize];
    if !has(them, q) {
        return false;
    }
    let k = king_of(p, us);
    if has(p.pcs[KNIGHT as usize], q) {
        return has(knight_att(k), q);
    }
    if has(p.pcs[PAWN as usize], q) {
        // the pawn on q attacks k  <=>  q is one of the squares a pawn of OUR colour on k would attack
        return has(pawn_att(k, us), q);
    }
    if has(p.pcs[KING as usize], q) {
        return false;
    }
    match aligned_dir(k, q) {
        None => false,
        Some((df, dr)) => slider_kind_ok(p, q, df, dr) && between_spec(k, q) & occ(p) == 0,
    }
}
/// is the piece on `q` (either colour) the sole blocker between the mover's king and an enemy slider
/// that moves along that line?
pub fn is_pinned(p: &P, q: u8) -> bool {
    let us = p.turn;
    let them = p.col[(1 - us) as usize];
    let o = occ(p);
    if !has(o, q) {
        return false;
    }
    let k = king_of(p, us);
    match aligned_dir(k, q) {
        None => false,
        Some((df, dr)) => {
            if between_spec(k, q) & o != 0 {
                return false;
            }
            // first occupied square beyond q in the same direction
            let beyond = ray(q, df, dr, o) & o;
            beyond & them != 0 && slider_kind_ok(p, beyond.trailing_zeros() as u8, df, dr)
        }
    }
}

/// enemy sliders that stand on a line through the mover's king along which they move (blockers ignored)
pub fn pinners_spec(p: &P) -> u64 {
    let us = p.turn;
    let them = p.col[(1 - us) as usize];
    let k = king_of(p, us);
    let rq = (p.pcs[ROOK as usize] | p.pcs[QUEEN as usize]) & them;
    let bq = (p.pcs[BISHOP as usize] | p.pcs[QUEEN as usize]) & them;
    (rook_rays_spec(k) & rq) | (bishop_rays_spec(k) & bq)
}
/// enemy knights and pawns attacking the mover's king
pub fn leaper_checkers_spec(p: &P) -> u64 {
    let us = p.turn;
    let them = p.col[(1 - us) as usize];
    let k = king_of(p, us);
    (knight_att(k) & p.pcs[KNIGHT as usize] & them) | (pawn_att(k, us) & p.pcs[PAWN as usize] & them)
}

/// single-walk form of "a slider of the given kind on src reaches d": aligned along a direction the kind moves in
/// and nothing strictly between. Equal to membership of d in rook_att / bishop_att / queen_att (cross-checked
/// natively in spec/selfcheck.rs); used where only one destination is queried.
pub fn slider_reaches(src: u8, d: u8, o: u64, diagonal_ok: bool, straight_ok: bool) -> bool {
    match aligned_dir(src, d) {
        None => false,
        Some((df, dr)) => {
            let diagonal = df != 0 && dr != 0;
            ((diagonal && diagonal_ok) || (!diagonal && straight_ok)) && between_spec(src, d) & o == 0
        }
    }
}
