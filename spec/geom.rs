//! Specification library, part 1: board geometry by walking (file, rank) pairs.
//! Deliberately naive: no tables, no magic numbers, no bit tricks beyond `1 << sq`.
//! Squares are u8 0..63 with file = sq % 8 (a..h), rank = sq / 8 (1..8); sets are u64.
//! Shares no code with the repository. Used (a) under Kani as the right-hand side of
//! contracts and (b) natively by spec/selfcheck.rs.
#![allow(dead_code)]

pub const WHITE: u8 = 0;
pub const BLACK: u8 = 1;

#[inline]
pub fn bit(sq: u8) -> u64 {
    1u64 << (sq & 63)
}
#[inline]
pub fn has(set: u64, sq: u8) -> bool {
    set & bit(sq) != 0
}
#[inline]
pub fn file_of(sq: u8) -> u8 {
    sq % 8
}
#[inline]
pub fn rank_of(sq: u8) -> u8 {
    sq / 8
}
#[inline]
pub fn sq_of(file: u8, rank: u8) -> u8 {
    rank * 8 + file
}

/// One step by (df, dr); None when it would leave the 8x8 board.
#[inline]
pub fn step(sq: u8, df: i8, dr: i8) -> Option<u8> {
    let f = file_of(sq) as i8 + df;
    let r = rank_of(sq) as i8 + dr;
    if f < 0 || f > 7 || r < 0 || r > 7 {
        None
    } else {
        Some((r * 8 + f) as u8)
    }
}

/// Squares reached from `sq` sliding in direction (df, dr) up to and including the first
/// occupied square.
pub fn ray(sq: u8, df: i8, dr: i8, occ: u64) -> u64 {
    let mut out = 0u64;
    let mut cur = sq;
    let mut i = 0;
    while i < 7 {
        match step(cur, df, dr) {
            None => break,
            Some(n) => {
                out |= bit(n);
                if has(occ, n) {
                    break;
                }
                cur = n;
            }
        }
        i += 1;
    }
    out
}

/// Whole ray to the edge, ignoring blockers.
pub fn ray_free(sq: u8, df: i8, dr: i8) -> u64 {
    ray(sq, df, dr, 0)
}

pub fn rook_att(sq: u8, occ: u64) -> u64 {
    ray(sq, 1, 0, occ) | ray(sq, -1, 0, occ) | ray(sq, 0, 1, occ) | ray(sq, 0, -1, occ)
}
pub fn bishop_att(sq: u8, occ: u64) -> u64 {
    ray(sq, 1, 1, occ) | ray(sq, -1, 1, occ) | ray(sq, 1, -1, occ) | ray(sq, -1, -1, occ)
}
pub fn queen_att(sq: u8, occ: u64) -> u64 {
    rook_att(sq, occ) | bishop_att(sq, occ)
}
pub fn rook_rays_spec(sq: u8) -> u64 {
    rook_att(sq, 0)
}
pub fn bishop_rays_spec(sq: u8) -> u64 {
    bishop_att(sq, 0)
}

#[inline]
fn opt_bit(s: Option<u8>) -> u64 {
    match s {
        Some(x) => bit(x),
        None => 0,
    }
}

pub fn knight_att(sq: u8) -> u64 {
    opt_bit(step(sq, 1, 2))
        | opt_bit(step(sq, 2, 1))
        | opt_bit(step(sq, 2, -1))
        | opt_bit(step(sq, 1, -2))
        | opt_bit(step(sq, -1, -2))
        | opt_bit(step(sq, -2, -1))
        | opt_bit(step(sq, -2, 1))
        | opt_bit(step(sq, -1, 2))
}
pub fn king_att(sq: u8) -> u64 {
    opt_bit(step(sq, 1, 0))
        | opt_bit(step(sq, 1, 1))
        | opt_bit(step(sq, 0, 1))
        | opt_bit(step(sq, -1, 1))
        | opt_bit(step(sq, -1, 0))
        | opt_bit(step(sq, -1, -1))
        | opt_bit(step(sq, 0, -1))
        | opt_bit(step(sq, 1, -1))
}
/// forward direction of a pawn of `color` (+1 for White, -1 for Black)
#[inline]
pub fn pawn_dir(color: u8) -> i8 {
    if color == WHITE {
        1
    } else {
        -1
    }
}
/// squares a pawn of `color` on `sq` attacks (captures towards)
pub fn pawn_att(sq: u8, color: u8) -> u64 {
    let d = pawn_dir(color);
    opt_bit(step(sq, 1, d)) | opt_bit(step(sq, -1, d))
}
/// pawn pushes from `sq` given the occupancy: one step if empty; two steps from the start
/// rank (2nd for White, 7th for Black) if both squares are empty
pub fn pawn_push(sq: u8, color: u8, occ: u64) -> u64 {
    let d = pawn_dir(color);
    let mut out = 0;
    if let Some(a) = step(sq, 0, d) {
        if !has(occ, a) {
            out |= bit(a);
            let start = if color == WHITE { 1 } else { 6 };
            if rank_of(sq) == start {
                if let Some(b) = step(a, 0, d) {
                    if !has(occ, b) {
                        out |= bit(b);
                    }
                }
            }
        }
    }
    out
}

#[inline]
fn sgn(x: i8) -> i8 {
    if x > 0 {
        1
    } else if x < 0 {
        -1
    } else {
        0
    }
}

/// direction (df, dr) from a to b when they share a rank, file or diagonal and a != b
pub fn aligned_dir(a: u8, b: u8) -> Option<(i8, i8)> {
    let df = file_of(b) as i8 - file_of(a) as i8;
    let dr = rank_of(b) as i8 - rank_of(a) as i8;
    if a == b {
        return None;
    }
    if df == 0 || dr == 0 || df == dr || df == -dr {
        Some((sgn(df), sgn(dr)))
    } else {
        None
    }
}

/// squares strictly between a and b; empty for non-aligned pairs
pub fn between_spec(a: u8, b: u8) -> u64 {
    match aligned_dir(a, b) {
        None => 0,
        Some((df, dr)) => ray(a, df, dr, bit(b)) & !bit(b),
    }
}
/// the whole line through a and b, edge to edge, including both; empty for non-aligned pairs
pub fn line_spec(a: u8, b: u8) -> u64 {
    match aligned_dir(a, b) {
        None => 0,
        Some((df, dr)) => bit(a) | ray_free(a, df, dr) | ray_free(a, -df, -dr),
    }
}
/// Chebyshev (king-move) distance
pub fn distance_spec(a: u8, b: u8) -> u8 {
    let df = (file_of(a) as i8 - file_of(b) as i8).unsigned_abs();
    let dr = (rank_of(a) as i8 - rank_of(b) as i8).unsigned_abs();
    if df > dr {
        df
    } else {
        dr
    }
}
pub fn file_set(file: u8) -> u64 {
    let mut out = 0;
    let mut r = 0;
    while r < 8 {
        out |= bit(sq_of(file, r));
        r += 1;
    }
    out
}
pub fn rank_set(rank: u8) -> u64 {
    let mut out = 0;
    let mut f = 0;
    while f < 8 {
        out |= bit(sq_of(f, rank));
        f += 1;
    }
    out
}
/// number of squares in a set, by counting
pub fn count_spec(set: u64) -> u8 {
    let mut n = 0u8;
    let mut i = 0u8;
    while i < 64 {
        if has(set, i) {
            n += 1;
        }
        i += 1;
    }
    n
}
