//! Specification library, part 3: the canonical FEN text of a position, written byte by byte into a
//! fixed buffer: `<placement> <w|b> <KQkq subset or -> <ep square or -> <half> <full>`.
#![allow(dead_code)]
use super::verif_geom::*;
use super::verif_rules::*;

pub const FEN_MAX: usize = 96;
pub struct Out {
    pub b: [u8; FEN_MAX],
    pub n: usize,
}
impl Out {
    pub fn new() -> Self {
        Out { b: [0; FEN_MAX], n: 0 }
    }
    pub fn put(&mut self, c: u8) {
        if self.n < FEN_MAX {
            self.b[self.n] = c;
        }
        self.n += 1;
    }
}
/// piece letter on a square, 0 if empty: PNBRQK for White, pnbrqk for Black
pub fn letter_at(p: &P, sq: u8) -> u8 {
    let l = match piece_at(p, sq) {
        None => return 0,
        Some(PAWN) => b'p',
        Some(KNIGHT) => b'n',
        Some(BISHOP) => b'b',
        Some(ROOK) => b'r',
        Some(QUEEN) => b'q',
        Some(_) => b'k',
    };
    if has(p.col[WHITE as usize], sq) {
        l - 32
    } else {
        l
    }
}
/// one rank, files a..h: piece letters, runs of empty squares as a digit
pub fn fen_rank(p: &P, rank: u8, o: &mut Out) {
    let mut run = 0u8;
    let mut f = 0u8;
    while f < 8 {
        let l = letter_at(p, sq_of(f, rank));
        if l == 0 {
            run += 1;
        } else {
            if run > 0 {
                o.put(b'0' + run);
                run = 0;
            }
            o.put(l);
        }
        f += 1;
    }
    if run > 0 {
        o.put(b'0' + run);
    }
}
pub fn fen_placement(p: &P, o: &mut Out) {
    let mut i = 0u8;
    while i < 8 {
        fen_rank(p, 7 - i, o);
        if i < 7 {
            o.put(b'/');
        }
        i += 1;
    }
}
/// decimal digits of n, no leading zeros
pub fn dec(n: u16, o: &mut Out) {
    let mut started = false;
    let mut div = 10000u16;
    let mut rest = n;
    while div > 0 {
        let d = (rest / div) as u8;
        rest %= div;
        if d != 0 || started || div == 1 {
            o.put(b'0' + d);
            started = true;
        }
        div /= 10;
    }
}
/// ` w KQkq e6 12 34` — everything after the placement, including the leading space
pub fn fen_tail(p: &P, o: &mut Out) {
    o.put(b' ');
    o.put(if p.turn == WHITE { b'w' } else { b'b' });
    o.put(b' ');
    if p.rights & 15 == 0 {
        o.put(b'-');
    } else {
        if p.rights & R_WK != 0 {
            o.put(b'K');
        }
        if p.rights & R_WQ != 0 {
            o.put(b'Q');
        }
        if p.rights & R_BK != 0 {
            o.put(b'k');
        }
        if p.rights & R_BQ != 0 {
            o.put(b'q');
        }
    }
    o.put(b' ');
    if p.ep >= 8 {
        o.put(b'-');
    } else {
        o.put(b'a' + p.ep);
        // the square a capturing pawn lands on: rank 6 when White is to move, rank 3 when Black is
        o.put(if p.turn == WHITE { b'6' } else { b'3' });
    }
    o.put(b' ');
    dec(p.half, o);
    o.put(b' ');
    dec(p.full, o);
}
pub fn fen_spec(p: &P, o: &mut Out) {
    fen_placement(p, o);
    fen_tail(p, o);
}
