//! Native self-check of the specification library against published perft numbers.
//! rustc -O spec/selfcheck.rs -o .cache/selfcheck && .cache/selfcheck
#[path = "geom.rs"]
mod verif_geom;
#[path = "rules.rs"]
mod verif_rules;
#[path = "fen.rs"]
mod verif_fen;
use verif_geom::*;
use verif_rules::*;

fn parse(fen: &str) -> P {
    let mut p = P { col: [0; 2], pcs: [0; 6], turn: 0, rights: 0, ep: NO_EP, half: 0, full: 1 };
    let f: Vec<&str> = fen.split_whitespace().collect();
    let (mut file, mut rank) = (0u8, 7u8);
    for c in f[0].chars() {
        match c {
            '/' => { file = 0; rank -= 1; }
            '1'..='8' => file += c as u8 - b'0',
            _ => {
                let color = if c.is_ascii_uppercase() { 0 } else { 1 };
                let piece = match c.to_ascii_lowercase() { 'p' => 0, 'n' => 1, 'b' => 2, 'r' => 3, 'q' => 4, 'k' => 5, _ => panic!() };
                p.col[color] |= bit(sq_of(file, rank));
                p.pcs[piece] |= bit(sq_of(file, rank));
                file += 1;
            }
        }
    }
    p.turn = if f[1] == "w" { 0 } else { 1 };
    for c in f[2].chars() {
        p.rights |= match c { 'K' => R_WK, 'Q' => R_WQ, 'k' => R_BK, 'q' => R_BQ, _ => 0 };
    }
    if f.len() > 3 && f[3] != "-" { p.ep = f[3].as_bytes()[0] - b'a'; }
    p
}

pub fn moves(p: &P) -> Vec<Mv> {
    let mut out = vec![];
    for src in 0..64u8 {
        if !has(p.col[p.turn as usize], src) { continue; }
        for dst in 0..64u8 {
            for promo in 0..=4u8 {
                let mv = Mv { src, dst, promo };
                if legal(p, mv) { out.push(mv); }
            }
        }
    }
    out
}
fn check_query_forms(p: &P) {
    let (c, pi) = (checkers_spec(p), pinned_spec(p));
    for q in 0..64u8 {
        assert_eq!(has(c, q), is_checker(p, q), "is_checker {q} {p:?}");
        assert_eq!(has(pi, q), is_pinned(p, q), "is_pinned {q} {p:?}");
    }
    assert_eq!(c != 0, in_check_spec(p));
    let o = occ(p);
    for s in 0..64u8 {
        if !has(o, s) { continue; }
        for d in 0..64u8 {
            assert_eq!(slider_reaches(s, d, o, false, true), has(rook_att(s, o), d));
            assert_eq!(slider_reaches(s, d, o, true, false), has(bishop_att(s, o), d));
        }
    }
}
fn perft(p: &P, depth: u32) -> u64 {
    check_query_forms(p);
    let ms = moves(p);
    if depth == 1 { return ms.len() as u64; }
    ms.iter().map(|&m| perft(&apply(p, m), depth - 1)).sum()
}

fn main() {
    let cases: &[(&str, &[u64])] = &[
        ("rnbqkbnr/pppppppp/8/8/8/8/PPPPPPPP/RNBQKBNR w KQkq - 0 1", &[20, 400, 8902, 197281]),
        ("r3k2r/p1ppqpb1/bn2pnp1/3PN3/1p2P3/2N2Q1p/PPPBBPPP/R3K2R w KQkq - 0 1", &[48, 2039, 97862]),
        ("8/2p5/3p4/KP5r/1R3p1k/8/4P1P1/8 w - - 0 1", &[14, 191, 2812, 43238]),
        ("r3k2r/Pppp1ppp/1b3nbN/nP6/BBP1P3/q4N2/Pp1P2PP/R2Q1RK1 w kq - 0 1", &[6, 264, 9467]),
        ("rnbq1k1r/pp1Pbppp/2p5/8/2B5/8/PPP1NnPP/RNBQK2R w KQ - 1 8", &[44, 1486, 62379]),
        ("n1n5/PPPk4/8/8/8/8/4Kppp/5N1N b - - 0 1", &[24, 496, 9483]),
        // en-passant discovered-check corner cases
        ("4k3/8/8/K2Pp2r/8/8/8/8 w - e6 0 1", &[6]),
        ("k3r3/8/8/3Pp3/8/8/8/4K3 w - e6 0 1", &[7]),
    ];
    let mut ok = true;
    for (fen, want) in cases {
        let p = parse(fen);
        assert!(playable(&p), "not playable: {fen}");
        for (i, &w) in want.iter().enumerate() {
            let got = perft(&p, i as u32 + 1);
            if got != w { ok = false; }
            println!("{} perft({}) = {} (published {}) {}", fen, i + 1, got, w, if got == w { "ok" } else { "MISMATCH" });
        }
    }
    // checkers/pinned spec sanity on a few hand positions
    let p = parse("4k3/8/8/8/1b6/8/3N4/r2BK3 w - - 0 1");
    assert_eq!(checkers_spec(&p), 0);
    assert_eq!(pinned_spec(&p), bit(11) | bit(3)); // d2 (bishop b4) and d1 (rook a1)
    let p = parse("4k3/8/8/8/8/8/8/r3K2R w K - 0 1");
    assert_eq!(checkers_spec(&p), bit(0));
    assert!(in_check_spec(&p));
    // geometry sanity
    assert_eq!(between_spec(0, 63), 0x0040201008040200);
    assert_eq!(line_spec(0, 9), 0x8040201008040201);
    assert_eq!(between_spec(0, 10), 0);
    assert_eq!(rook_att(0, 0), 0x01010101010101fe);
    assert_eq!(knight_att(0), (1 << 10) | (1 << 17));
    assert_eq!(pawn_push(8, 0, 0), (1 << 16) | (1 << 24));
    assert_eq!(pawn_push(8, 0, 1 << 24), 1 << 16);
    assert_eq!(pawn_push(8, 0, 1 << 16), 0);
    // canonical FEN writer against the strings the positions were parsed from
    for fen in ["rnbqkbnr/pppppppp/8/8/8/8/PPPPPPPP/RNBQKBNR w KQkq - 0 1", "r3k2r/p1ppqpb1/bn2pnp1/3PN3/1p2P3/2N2Q1p/PPPBBPPP/R3K2R w KQkq - 0 1", "8/2p5/3p4/KP5r/1R3p1k/8/4P1P1/8 w - - 0 1", "n1n5/PPPk4/8/8/8/8/4Kppp/5N1N b - - 0 1"] {
        let p = parse(fen);
        let mut o = verif_fen::Out::new();
        verif_fen::fen_spec(&p, &mut o);
        assert_eq!(std::str::from_utf8(&o.b[..o.n]).unwrap(), fen);
    }
    let mut p = parse("4k3/8/8/3pP3/8/8/8/4K3 w - d6 0 1");
    p.half = 9999; p.full = 65535; p.rights = 0;
    let mut o = verif_fen::Out::new();
    verif_fen::fen_spec(&p, &mut o);
    assert_eq!(std::str::from_utf8(&o.b[..o.n]).unwrap(), "4k3/8/8/3pP3/8/8/8/4K3 w - d6 9999 65535");
    if !ok { std::process::exit(1); }
    println!("spec self-check ok");
}
