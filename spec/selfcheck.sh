#!/bin/sh
# Build and run the native spec self-check; stamp .cache/spec_ok with the hash of spec/*.rs.
set -e
HERE="$(cd "$(dirname "$0")/.." && pwd)"
mkdir -p "$HERE/.cache"
rustc -O --edition 2021 -A warnings "$HERE/spec/selfcheck.rs" -o "$HERE/.cache/selfcheck"
"$HERE/.cache/selfcheck" > "$HERE/.cache/selfcheck.out" || { cat "$HERE/.cache/selfcheck.out"; exit 1; }
tail -1 "$HERE/.cache/selfcheck.out"
python3 -c "
import sys; sys.path.insert(0,'$HERE')
from vlib import registry
open('$HERE/.cache/spec_ok','w').write(registry.spec_hash('$HERE'))"
