#!/bin/sh
# Offline setup: build the native spec self-check (perft numbers) once. Everything else is rebuilt per check.
set -e
cd "$(dirname "$0")"
mkdir -p .cache evidence
if [ -x spec/selfcheck.sh ]; then ./spec/selfcheck.sh; fi
echo setup-ok
