// Spec-level lemmas (no executable code involved); checked by `verus verus/lemmas.rs`.
// No property's verdict rests on these alone (DESIGN 2.2): they back the meta-arguments that compose
// Kani-discharged contracts.
use vstd::prelude::*;

verus! {

// ---------------------------------------------------------------- C14: the (rank, key) order is a strict total order
pub struct S { pub rank: int, pub key: int }

pub open spec fn lt(a: S, b: S) -> bool {
    a.rank < b.rank || (a.rank == b.rank && a.key < b.key)
}

proof fn c14_total_order(a: S, b: S, c: S)
    ensures
        !lt(a, a),
        lt(a, b) ==> !lt(b, a),
        lt(a, b) && lt(b, c) ==> lt(a, c),
        lt(a, b) || lt(b, a) || a == b,
{
}

// ---------------------------------------------------------------- C04: delta form + invariant => from-scratch equality
// Hash fields are xor-folds; model xor on u64 as bitwise xor and the fold as a recursive function over a
// sequence of keys. Appending the keys in any order gives the same fold (commutativity/associativity),
// and folding in a key twice cancels it.
pub open spec fn fold(s: Seq<u64>) -> u64
    decreases s.len(),
{
    if s.len() == 0 { 0u64 } else { fold(s.drop_last()) ^ s.last() }
}

proof fn xor_comm_assoc(a: u64, b: u64, c: u64)
    ensures
        a ^ b == b ^ a,
        (a ^ b) ^ c == a ^ (b ^ c),
        a ^ a == 0u64,
        a ^ 0u64 == a,
{
    assert(a ^ b == b ^ a) by (bit_vector);
    assert((a ^ b) ^ c == a ^ (b ^ c)) by (bit_vector);
    assert(a ^ a == 0u64) by (bit_vector);
    assert(a ^ 0u64 == a) by (bit_vector);
}

// removing a key by xor and adding another: h(old) ^ k_removed ^ k_added is the fold of the updated multiset
proof fn c04_delta_step(h_rest: u64, k_old: u64, k_new: u64)
    ensures
        ((h_rest ^ k_old) ^ k_old) ^ k_new == h_rest ^ k_new,
{
    assert(((h_rest ^ k_old) ^ k_old) ^ k_new == h_rest ^ k_new) by (bit_vector);
}

proof fn fold_push(s: Seq<u64>, k: u64)
    ensures fold(s.push(k)) == fold(s) ^ k,
{
    assert(s.push(k).drop_last() =~= s);
}

// order independence for two keys (the induction step of permutation invariance)
proof fn fold_swap(s: Seq<u64>, a: u64, b: u64)
    ensures fold(s.push(a).push(b)) == fold(s.push(b).push(a)),
{
    fold_push(s.push(a), b);
    fold_push(s, a);
    fold_push(s.push(b), a);
    fold_push(s, b);
    let x = fold(s);
    assert((x ^ a) ^ b == (x ^ b) ^ a) by (bit_vector);
}

// ---------------------------------------------------------------- C07: the move list never exceeds its 18 slots
// Each per-type generator pushes at most one entry per own piece of that type (C01.*.body: at most one push per
// loop body; the two loops range over disjoint subsets), the king at most one, pawns additionally at most
// one entry per en-passant capturer (at most two squares: C07.ep_capturers).
proof fn c07_capacity(p: nat, n: nat, b: nat, r: nat, q: nat, k: nat, ep: nat)
    requires
        p + n + b + r + q + k <= 16,
        ep <= 2,
    ensures
        (p + ep) + n + b + r + q + k <= 18,
{
}

} // verus!

fn main() {}
