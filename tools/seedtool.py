#!/usr/bin/env python3
"""Confirm a seeded change and run a check against it, in a scratch worktree (never in /repo).
  seedtool.py confirm <seed-dir>            apply -> 44 tests pass & demo fails; revert -> demo passes
  seedtool.py check <seed-dir> <prop> [..]  run ./check <prop> --no-evidence with VERIF_REPO=<worktree with patch>
"""
import json, os, re, subprocess, sys, time
WT = "/var/tmp/seedwt"
VERIF = os.path.dirname(os.path.dirname(os.path.abspath(__file__)))
ENV = dict(os.environ, CARGO_NET_OFFLINE="true", CARGO_TERM_COLOR="never")

def sh(cmd, **kw):
    return subprocess.run(cmd, shell=isinstance(cmd, str), stdout=subprocess.PIPE, stderr=subprocess.STDOUT, env=ENV, **kw)

def ensure_wt():
    if not os.path.isdir(WT):
        r = sh(["git", "-C", "/repo", "worktree", "add", "--detach", WT])
        assert r.returncode == 0, r.stdout
    sh(["git", "-C", WT, "checkout", "--detach", "-q", sh(["git", "-C", "/repo", "rev-parse", "HEAD"]).stdout.decode().strip()])
    sh(["git", "-C", WT, "checkout", "--", "."])
    sh(["git", "-C", WT, "clean", "-fdq", "-e", "target"])

def demo_target(seed):
    notes = open(os.path.join(seed, "notes.md")).read()
    m = re.search(r"(chess-[a-z]+|tracing-enabled)/tests/seed_demo\.rs", notes)
    crate = m.group(1) if m else "chess-movegen"
    return crate

def run_tests():
    r = sh("cargo test --workspace --offline 2>&1 | grep -E '^test result|FAILED|panicked' ", cwd=WT)
    out = r.stdout.decode()
    passed = sum(int(x) for x in re.findall(r"(\d+) passed", out))
    failed = sum(int(x) for x in re.findall(r"(\d+) failed", out))
    return passed, failed, out

def run_demo(seed, crate):
    d = os.path.join(WT, crate, "tests")
    os.makedirs(d, exist_ok=True)
    sh(["cp", os.path.join(seed, "demo.rs"), os.path.join(d, "seed_demo.rs")])
    r = sh("cargo test -p %s --offline --test seed_demo 2>&1 | grep -E '^test |test result|error'" % crate, cwd=WT)
    os.remove(os.path.join(d, "seed_demo.rs"))
    out = r.stdout.decode()
    ok = "test result: ok" in out
    return ok, out

def confirm(seed):
    ensure_wt()
    crate = demo_target(seed)
    base_ok, base_out = run_demo(seed, crate)
    r = sh(["git", "-C", WT, "apply", os.path.join(seed, "patch.diff")])
    if r.returncode != 0:
        print("APPLY FAILED", r.stdout.decode()); return False
    passed, failed, tout = run_tests()
    mut_ok, mut_out = run_demo(seed, crate)
    sh(["git", "-C", WT, "checkout", "--", "."])
    res = dict(seed=seed, demo_crate=crate, baseline_demo_passes=base_ok, tests_passed_with_patch=passed, tests_failed_with_patch=failed, demo_fails_with_patch=not mut_ok)
    res["confirmed"] = base_ok and passed == 44 and failed == 0 and not mut_ok
    print(json.dumps(res))
    if not res["confirmed"]:
        print(base_out[-800:], tout[-800:], mut_out[-800:])
    return res["confirmed"]

def check(seed, props, extra):
    ensure_wt()
    r = sh(["git", "-C", WT, "apply", os.path.join(seed, "patch.diff")])
    if r.returncode != 0:
        print("APPLY FAILED", r.stdout.decode()); return
    for p in props:
        t0 = time.time()
        r = subprocess.run([os.path.join(VERIF, "check"), p, "--no-evidence"] + extra, env=dict(os.environ, VERIF_REPO=WT), stdout=subprocess.PIPE, stderr=subprocess.STDOUT)
        out = r.stdout.decode()
        lines = [l for l in out.split("\n") if re.search(r"VIOLATION|UNDECIDED|KNOWN|refuted|OK:", l)]
        print("== %s vs %s: exit=%d (%.0fs)" % (os.path.basename(seed), p, r.returncode, time.time() - t0))
        print("\n".join(lines[:12]))
    sh(["git", "-C", WT, "checkout", "--", "."])

if __name__ == "__main__":
    if sys.argv[1] == "confirm":
        sys.exit(0 if all([confirm(s) for s in sys.argv[2:]]) else 1)
    elif sys.argv[1] == "check":
        props = [a for a in sys.argv[3:] if re.match(r"C\d\d$", a)]
        extra = [a for a in sys.argv[3:] if a not in props]
        check(sys.argv[2], props, extra)
