#!/usr/bin/env python3
"""Memory-aware experiment queue on the dev woven copy: batch.py <summary-file> <maxjobs> <crate> <flags> <timeout> <harness>..."""
import os, subprocess, sys, time
HERE = os.path.dirname(os.path.abspath(__file__))
def avail():
    for l in open("/proc/meminfo"):
        if l.startswith("MemAvailable:"):
            return int(l.split()[1]) / (1 << 20)
summary, maxj, crate, flags, tmo = sys.argv[1], int(sys.argv[2]), sys.argv[3], sys.argv[4], sys.argv[5]
todo = list(sys.argv[6:])
running = []
D = os.environ.get("DEV_DIR", "/var/tmp/dev")
while todo or running:
    running = [(p, h, f) for (p, h, f) in running if p.poll() is None or (open(summary, "a").write(open(f).read()), False)[1]]
    if todo and len(running) < maxj and avail() > 22:
        h = todo.pop(0)
        f = "%s/logs/%s.out" % (D, h.split("::")[-1])
        p = subprocess.Popen([sys.executable, HERE + "/dev.py", "run", crate, h, tmo, flags], stdout=open(f, "w"), stderr=subprocess.STDOUT)
        running.append((p, h, f))
        time.sleep(25)
    else:
        time.sleep(5)
