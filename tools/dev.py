#!/usr/bin/env python3
"""Developer loop: keep one woven copy under /var/tmp/dev whose harness/spec dirs are symlinks to /verif.
  dev.py weave                         (re)create the woven copy from /repo (or VERIF_REPO)
  dev.py run <crate> <harness-path> [timeout_s] [flagsgroup] [extra kani args...]   -> prints summary, log in /var/tmp/dev/logs
"""
import json, os, shutil, subprocess, sys, time
HERE = os.path.dirname(os.path.dirname(os.path.abspath(__file__)))
sys.path.insert(0, HERE)
from vlib import runner, registry
D = os.environ.get("DEV_DIR", "/var/tmp/dev")
def weave():
    ws, vc = D + "/ws", D + "/verif"
    tgt = None
    if os.path.isdir(ws + "/target"):
        tgt = D + "/target.keep"
        if os.path.exists(tgt): shutil.rmtree(tgt)
        os.rename(ws + "/target", tgt)
    runner.weave(ws, vc)
    for d in ("harness", "spec"):
        shutil.rmtree(vc + "/" + d)
        os.symlink(HERE + "/" + d, vc + "/" + d)
    if tgt: os.rename(tgt, ws + "/target")
    os.makedirs(D + "/logs", exist_ok=True)
    print("woven at", ws)
def run(crate, harness, tmo=600, fg="full", extra=()):
    name = harness.split("::")[-1]
    out = D + "/logs/%s.json" % name
    logf = D + "/logs/%s.log" % name
    t0 = time.time()
    rc, wall, cmd = runner.run_kani(D + "/ws", crate, [harness], runner.FLAG_GROUPS[fg] + list(extra), 1, int(tmo), out, logf, mem_gb=40)
    res = runner.parse_export(out)
    res.pop("__tools__", None)
    r = res.get(harness)
    if not r:
        lines = open(logf).read().split("\n")
        errs = [i for i, l in enumerate(lines) if l.startswith("error")]
        for i in errs[:6]: print("\n".join(lines[i:i+12]))
        if not errs: print("\n".join(lines[-25:]))
        return
    v, reason, failing = runner.classify({"kind": "complete"}, r)
    st = r["cbmc_stats"]
    print("%s: %s checks=%d symex=%.1fs solver=%.1fs wall=%.0fs %s" % (name, v, r["checks_total"], st.get("runtime_symex_s") or 0, st.get("runtime_decision_procedure_s") or 0, time.time() - t0, reason[:400]))
    for c in r["covers"]:
        print("   cover:", c.get("status"), c.get("description", "")[:100])
if __name__ == "__main__":
    if sys.argv[1] == "weave": weave()
    else: run(sys.argv[2], sys.argv[3], *(sys.argv[4:6]), extra=sys.argv[6:])
